#!/usr/bin/env python3
"""Regenerates /verif/MANIFEST.json from the table below."""
import json, os
V = os.path.dirname(os.path.dirname(os.path.abspath(__file__)))
TV = "translation_validation"
CHECKS = {
 "C01": (TV, "A", "SMT equivalence of the captured z3 program with an independent reference translation (z3), per program and per session prefix",
         "Every program of a generated family (all public constructors over all leaf combinations, all parent/child constructor pairs with literal and variable siblings, directly built n-ary +/-, random incremental sessions) is run through the real Solver/Z3Backend; the reference is the documented meaning of the program's *description* (independent of the trees the library builds); z3 decides for all variable values that what the back end add()s is equivalent to domains & reference meaning, that find_answer's verdict equals satisfiability of the reference formula and that .sol is a model. Bounded by tree depth 3 / 4 variables; not a proof.",
         "reference translator (vlib/ea/ref.py); z3 5.1.0 (also the back end under test); proxy capture of z3.Solver.add", "2/C01"),
 "C04": (TV, "A", "SMT exists-forall set equality between the emitted constraint program and an auxiliary-free connectivity specification (z3)",
         "For each graph/grid instance the real active_vertices_connected is executed; z3 decides soundness (F & ~R unsat) and completeness (R & forall aux. ~F unsat) over all 2^n patterns and all auxiliary assignments at once; instances (graphs <= 5-9 vertices, grids <= 4x4, Graph objects with a usage history) are enumerated; beyond that bound a 'spot' mode pins is_active to adversarial patterns on grids up to 7x7 while the solver still decides over all auxiliaries.",
         "reference translator; closure-matrix spec library; z3 quantifier engine; native operator layout as documented", "2/C04"),
 "C08": (TV, "A", "SMT set equality (exists-forall) between grid/graph encodings and the graph definition (z3)",
         "Same engine as C04 for not_adjacent (no auxiliaries: plain equivalence) and not_adjacent_and_not_segmenting (grid encoding and explicit-graph encoding both against not-adjacent & complement-connected), all grid shapes h*w<=9/12 incl. 1xN.",
         "reference translator; spec library; z3", "2/C08"),
 "C09": (TV, "A", "SMT set equality (exists-forall) between the rank encoding and the forest specification (z3)",
         "Same engine as C04 for active_edges_acyclic on loop-free multigraphs (parallel edges included), flags as variables or expressions.",
         "reference translator; spec library (|E| = n - #components); z3", "2/C09"),
 "C05": (TV, "A", "SMT set equality (exists-forall) between the emitted program and the labeling specification (z3)",
         "Same engine as C04 for division_connected: all labelings over 0..k-1, all forest/rank/root auxiliaries symbolic; graphs <= 5-6 vertices, grids h*w <= 6/9, k <= 3/4, roots lists, allow_empty_group, both encodings (config flag), list / IntArray1D / IntArray2D forms.",
         "reference translator; spec library; z3; native operator layout", "2/C05"),
 "C06": (TV, "A", "SMT set equality (exists-forall) between the emitted program and the cycle/path specification incl. the returned array (z3)",
         "Same engine for active_edges_single_cycle / single_path: edge flags and the returned is_passed array are free variables, so 'true exactly at visited vertices' is decided too; multigraphs <= 5 vertices, frames <= 2x2 / 3x3 with a geometric specification independent of _from_grid_frame.",
         "reference translator; spec library; z3; native operator layout", "2/C06"),
 "C07": (TV, "A", "SMT set equality (exists-forall) between the emitted program and the partition / border specification (z3)",
         "Same engine for division_connected_variable_groups (x = same-block relation + size variables; group ids auxiliary) and the _with_borders variant (x = border flags + size variables), all group_size forms, native GRAPH_DIVISION operator read per its docstring.",
         "reference translator; spec library; z3; reading of GRAPH_DIVISION", "2/C07"),
 "C10": (TV, "A", "SMT set equality (exists-forall) between the emitted program and a geometric strand specification (z3)",
         "Same engine for active_edges_connected_crossable / single_cycle_crossable: all segments and both returned arrays free; specification written over the segment graph, never mentioning the split-node construction; frames <= 2x3 quick, <= 3x3 / 2x4 thorough; beyond that a spot mode pins segments and returned arrays on 4x5 ... 6x6 frames (auxiliary graph above 128 nodes) while all rank / root auxiliaries stay symbolic.",
         "reference translator; spec library; z3", "2/C10"),
 "C12": (TV, "A+B", "SMT validity of per-element equalities between produced trees and the pointwise meaning (z3); CrossHair for four_neighbor_indices",
         "Each operator form (A op B, A op s, s op A, unary, then, cond; literals; both positions) over 8 shapes incl. empty is applied by the real code; one z3 query per form shows no element can differ from ref(A[i]) op ref(B[i]) for any variable values; helpers over 21 nestings vs Sum(If)/Or/And/distinct; conv2d vs windowed and/or; four_neighbor_indices for unbounded h,w,y,x by CrossHair. Rejections are a finite table (labelled, no solver).",
         "reference translator; z3; CrossHair soundness for the one B condition", "2/C12"),
 "C13": ("other", "B", "CrossHair symbolic execution (z3) of the real slice-normalisation kernel against a transcription of CPython's slice semantics",
         "The kernel (_parse_range + _range_size) is confirmed over all paths for UNBOUNDED size/start/stop (or None) per fixed step in +-1..+-4; gather through the real __getitem__ on small shapes with bounded symbolic keys (explored path-per-value); flatten/reshape and 1-D indexing are finite tables.",
         "CrossHair 0.0.110 soundness; ref_slice transcription of PySlice_AdjustIndices", "2/C13"),
 "C14": ("other", "B", "CrossHair symbolic execution (z3) of the real BoolGridFrame accessors over stub arrays, unbounded sizes and coordinates",
         "__getitem__, cell_neighbors, vertex_neighbors, dual and the edge/point/cell incidence are confirmed over all paths for unbounded h, w, y, x; orderings (all_edges, iteration, _from_grid_frame) are a finite structural table h,w<=4/7; semantic use of the inferred graph is decided in C06/C10.",
         "CrossHair soundness; stub arrays stand for BoolArray2D", "2/C14"),
 "C02": (TV, "A", "per-answer-key SMT exactness queries on the reference formula (z3) after running the real solve() against several oracle routes",
         "The real Solver.solve() runs on every solution set over 3 booleans / {0,1,2}^2 / bool x int and on random tree programs, (incl. values outside the small-int cache and two-phase sessions solve / add_answer_key / solve) against z3, four steered real-z3 oracles (model choice adversarial, contract kept), and the five text back ends served by an exact protocol solver (native deduction mode and refinement through 'sugar'); per key z3 decides forced-value / genuine ambiguity on the reference formula. Oracle orders beyond the steered ones are outside the claim.",
         "reference translator; z3; vlib/ea/sugartext.py as the external solver", "2/C02"),
 "C03": (TV, "A+B", "SMT equivalence between the captured CSP text (independent Sugar-syntax reader) and the reference translation (z3); CrossHair for reply parsing",
         "The string handed to each of the five back ends' external entry point is captured; z3 decides text <=> posted constraints for all variable values (native graph operators included); declarations and the answer-key line are compared exactly; reply parsing is executed symbolically by CrossHair for both reply formats with symbolic values, listed-subset flags and ids != positions.",
         "independent Sugar reader; reference translator; z3; CrossHair; reply grammar of CspuzSugarInterface.java", "2/C03"),
 "C15": ("other", "B", "CrossHair symbolic execution (z3) of the real combinators with validated pure-Python models of hex()/int(); value-side and text-side round-trip postconditions",
         "Value-side harnesses (symbolic items: values around 15/16/255/256/4095, space runs across the one-character limit, partial digit groups, small boards) and text-side harnesses (EVERY Unicode text of length <= 3-4, whose decoded values must re-encode and decode to themselves consuming the text exactly) for every combinator and a fixed list of compositions, Rooms / ValuedRooms on boards incl. 1xN / Nx1 with symbolic room/cell orderings. Encoders are explored path-per-value.",
         "CrossHair soundness; models of hex/int validated each run; non-ASCII decimal digits cut from int() (finite table in C17)", "2/C15"),
 "C16": ("other", "B", "CrossHair symbolic execution (z3) of each module's serialize/deserialize pair against an independent pzpr-format decoder",
         "Symbolic problems on small non-square boards for nurikabe, masyu, slitherlink, sudoku, nurimisaki, yajilin, heyawake, lits, norinori, compass, star_battle, aquarium: round trip incl. dimensions, puzz.link field order, body equal to what vlib/eb/pzpr.py reads, legacy helper encoders equal to the combinator codecs.",
         "CrossHair soundness; vlib/eb/pzpr.py transcription of the pzpr encodings; builtin models", "2/C16"),
 "C17": ("other", "B", "CrossHair symbolic execution (z3) of the real decoders on fully symbolic Unicode text, per declared board size",
         "For each of 9 puzzle codecs and the Rooms/ValuedRooms/Grid combinators, every text of length <= 2-4 and every declared (height,width) in 0..2 (0..3 thorough): only None / ValueError / a problem of the declared dimensions that serialises and decodes to itself; URL level with symbolic width/height/name/flags over a fixed body list and a fully symbolic short url. Longer bodies and the recursion-depth risk of Rooms on huge boards are outside the bound.",
         "CrossHair soundness; builtin models (exact except for the stated non-ASCII-digit cut, covered by a finite table)", "2/C17"),
 "C19": ("other", "C+B", "AST->SMT translation of the PRNG kernels (z3 bit-vectors / integers / floating point) + CrossHair symbolic execution of choice, shuffle, neighbour generators, generate_problem",
         "XorShift.__init__/next are regenerated from source as 64-bit vector terms and proven equal to Marsaglia's xorshift128 step with the state invariant for all seeds/states; randint is translated over mathematical integers with a fresh symbol per draw (loop unrolled twice; additionally decided by a CrossHair harness on the real function, which survives refactorings the translator cannot encode): range, value a + x mod w, rejection exactly above the limit, ValueError conditions and the multiple-of-w lemma behind uniformity are unsat queries over all (a,b) and draws; random() in [0,1) as an FP query. choice/shuffle (bijection for N<=4), neighbour shape/purity on 2x2, generate_problem soundness with symbolic callback verdicts (<= 2 steps) and reproducibility under the deterministic PRNG (global random as two symbolic feeds) are CrossHair harnesses.",
         "Engine C translator side obligations discharged; z3; CrossHair soundness; uniformity is relative to uniform 32-bit draws", "2/C19"),
 "C20": ("other", "C+B", "AST->SMT-LIB strings translation of the boolean parser decided by cvc5 over all strings; CrossHair for name dispatch; finite tables for the rest",
         "_strtobool: for every string of any length each path's outcome equals the case-insensitive specification (cvc5 str.to_lower + regular expressions; non-ASCII closed by a table over all code points; a finite table of 100 spellings runs alongside and is all that is left when the translator cannot encode a rewritten parser). _get_backend_by_name: every string <= 15 chars (CrossHair). Environment x importable modules x flags, precedence of per-call argument over config, never-native for acyclic, and which class/entry point receives a solve are finite tables run completely (labelled, no solver).",
         "cvc5 1.0.3; CrossHair; tables are exhaustive over their stated finite domains", "2/C20"),
 "C11": (TV, "A", "SMT set equality (exists-forall) between the program posted by each solve_<puzzle> and a rule specification, per enumerated instance; reported facts checked by SMT on the rules",
         "25 of the 26 modules named by the property have a rule specification written from the published rules (sudoku, slitherlink, masyu, yajilin, nurikabe, heyawake, akari, norinori, star_battle, fillomino, nurimisaki, yinyang, creek, gokigen, aquarium, building, doppelblock, putteria, geradeweg, compass, lits, castle_wall, view, fivecells, shakashaka). Per instance z3 decides over ALL candidate answer grids and all auxiliaries that the posted program admits exactly the rule-obeying grids, and that the returned is_sat / decided / undecided cells are exactly what the rules force. Instances (board shape + clue layout) are enumerated, not symbolic: that is the bound; they include every room layout of the small boards for the room puzzles, options (checkered fillomino), and the same instance after another instance of the same size was solved in the process (each instance runs in its own forked child). simpleloop (generator device: its pivot parameter has no published rule) is not covered.",
         "rule specifications (vlib/checks/c11_specs.py) with reading notes; reference translator; spec library; z3", "2/C11"),
}
CHECKS["C18"] = ("other", "B", "CrossHair symbolic execution of one inductive step of the real builder: bound parameters as unconstrained symbolic integers, random draws symbolic, every connected partition of a small board as pre-state (selected by a symbolic index)",
         "One update from EVERY valid pre-state on boards up to 2x3 (so update sequences of any length on those boards): candidates / copy_with_update / initial are executed by CrossHair with min/max block count and size as arbitrary integers and split_block's seed draws symbolic; the postcondition (board covered exactly once by non-empty orthogonally connected blocks, counts and sizes inside the effective bounds, nothing the update was computed from is modified) is confirmed over all paths. split_block is also decided as a unit on every connected block inside 2x3 (3x3, 2x4 thorough) for every ordered seed pair. The pre-state dimension is exhaustive enumeration by independent harness code, not symbolic (a fully symbolic partition did not complete a path in 10 CPU-minutes, DESIGN 2/C18); joint count-and-size bounds are symbolic together only on 1x3 / 2x2 boards, pairwise elsewhere.",
         "CrossHair exhaustiveness; concrete sub-calls (split_block, _is_connected on plain cell lists) run outside the tracer; srandom stubs respect the randint/choice contracts; bounds part claimed for allow_unmet_constraints_first=False", "2/C18 and 7.3")
NA = {}
PENDING = {}
def main():
    props = [json.loads(l)["id"] for l in open(os.path.join(V, "properties.jsonl"))]
    checks = []
    for pid in props:
        if pid in CHECKS:
            lvl, eng, tech, text, note, ref = CHECKS[pid]
            checks.append({"property_id": pid, "quick_cmd": "./vcheck %s --tier quick" % pid,
                           "thorough_cmd": "./vcheck %s --tier thorough" % pid,
                           "evidence_file": "evidence/%s.json" % pid,
                           "replay_cmd_template": "./vcheck %s --replay {path}" % pid,
                           "engine": eng, "technique": tech,
                           "level_claimed": {"category": lvl, "text": text, "design_ref": "DESIGN.md section " + ref},
                           "level_note": note})
    na = []
    for pid in props:
        if pid not in CHECKS:
            na.append({"property_id": pid, "reason": NA.get(pid, PENDING.get(pid, "check not built yet in this round (planned, see DESIGN.md)"))})
    m = {"version": 1, "setup_cmd": "./setup.sh",
         "hooks": {"guard": "CSPUZ_VERIF", "enable": "no source hooks are needed: checks import /repo directly and capture programs by subclassing / module-attribute substitution",
                   "baseline_off_cmd": "python3 tools/baseline.py", "source_commits": [], "add_only": True},
         "engines": [
            {"name": "A", "path": "vlib/ea", "serves_properties": [p for p in props if p in CHECKS and CHECKS[p][1].startswith("A")], "kind_free_text": "emitted constraint program vs auxiliary-free z3 specification; exists-forall completeness queries"},
            {"name": "B", "path": "vlib/eb", "serves_properties": [p for p in props if p in CHECKS and "B" in CHECKS[p][1]], "kind_free_text": "CrossHair symbolic execution of the real Python functions (z3 inside)"},
            {"name": "C", "path": "vlib/ec", "serves_properties": [p for p in props if p in CHECKS and "C" in CHECKS[p][1]], "kind_free_text": "AST -> SMT translation of straight-line integer/string kernels (z3 bit-vectors / ints, cvc5 strings)"}],
         "checks": checks, "not_applicable": na,
         "notes": "All checks: ./vcheck <ID> --tier quick|thorough ; exit 0 ok, 1 violation (VIOLATION line), 3 harness error/inconclusive-only. Known findings: known_findings.txt."}
    json.dump(m, open(os.path.join(V, "MANIFEST.json"), "w"), indent=1)
    print("checks:", [c["property_id"] for c in checks], "na:", [x["property_id"] for x in na])
if __name__ == "__main__":
    main()
