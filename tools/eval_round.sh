#!/bin/bash
# eval_round.sh <round-dir> <round-no> <PROP> [checks]  - confirm one sub-agent change (mutants/mut1.diff, demo1.py, note1.md in
# <round-dir>/<PROP>) with try_mutant.py and record it under /verif/seeded/<PROP>-r<round>m1
rd=$1; r=$2; p=$3; checks=${4:-$p}
m=$rd/$p/mutants
mkdir -p /verif/scratch/round$r
cp $m/mut1.diff /verif/scratch/round$r/$p.diff; cp $m/demo1.py /verif/scratch/round$r/$p.demo.py; cp $m/note1.md /verif/scratch/round$r/$p.note.md 2>/dev/null
python3 /verif/tools/try_mutant.py $p /verif/scratch/round$r/$p.diff /verif/scratch/round$r/$p.demo.py --checks $checks > /verif/scratch/round$r/$p.json
python3 - <<PY
import json; d=json.load(open('/verif/scratch/round$r/$p.json')); print('$p', 'confirmed', d.get('confirmed'), {c:(v['rc'],v['wall_s'],v['violation_keys'][:4],v['tail'][-120:]) for c,v in d['checks'].items()})
PY
