#!/bin/bash
# quick_mut.sh <diff> <check> [extra vcheck args]  - apply a seeded change in a scratch worktree and run one check against it
d=$(mktemp -d /tmp/qm_XXXX); rmdir $d
git -C /repo worktree add -q --detach $d HEAD || exit 9
git -C $d apply "$1" || { echo APPLY-FAILED; git -C /repo worktree remove --force $d; exit 9; }
shift
c=$1; shift
cd /verif && VERIF_REPO=$d ./vcheck $c "$@" | grep -v "^  key=" | tail -4
git -C /repo worktree remove --force $d
find /verif/replays -name '*.json' -delete
