#!/bin/bash
# runs every thorough tier once, sequentially; summary lines to scratch/thorough_summary.txt
cd "$(dirname "$0")/.."
mkdir -p scratch/thorough_logs scratch/thorough_evidence
export VERIF_EVIDENCE_DIR=$PWD/scratch/thorough_evidence
: > scratch/thorough_summary.txt
for c in ${@:-C01 C02 C03 C04 C05 C06 C07 C08 C09 C10 C11 C12 C13 C14 C15 C16 C17 C18 C19 C20}; do
  s=$(date +%s)
  ./vcheck $c --tier thorough > scratch/thorough_logs/$c.log 2>&1
  rc=$?
  echo "$c rc=$rc wall=$(( $(date +%s) - s ))s $(tail -1 scratch/thorough_logs/$c.log)" >> scratch/thorough_summary.txt
done
