#!/usr/bin/env python3
"""try_mutant.py <PROP> <diff> <demo.py> [--tier quick] [--checks C04,C06]
Confirms a seeded change in a fresh scratch worktree (demo passes without / fails with it, pinned suite still passes) and runs
the named checks against it.  Prints a JSON summary.  The worktree is removed afterwards."""
import json, os, re, subprocess, sys, tempfile, time, shutil
prop, diff, demo = sys.argv[1:4]
tier = "quick"
checks = [prop]
for i, a in enumerate(sys.argv):
    if a == "--tier":
        tier = sys.argv[i + 1]
    if a == "--checks":
        checks = sys.argv[i + 1].split(",")
wt = tempfile.mkdtemp(prefix="mw_", dir="/tmp")
os.rmdir(wt)
def sh(cmd, **kw):
    return subprocess.run(cmd, shell=True, stdout=subprocess.PIPE, stderr=subprocess.STDOUT, text=True, **kw)
out = {"property": prop, "diff": diff, "demo": demo}
try:
    r = sh("git -C /repo worktree add -q %s HEAD" % wt)
    assert r.returncode == 0, r.stdout
    src = open(demo).read()
    src = re.sub(r"/tmp/mut[234567]?/[A-Z]\d*", wt, src)
    dpath = os.path.join(wt, "_demo.py")
    open(dpath, "w").write(src)
    env = dict(os.environ); env["PYTHONPATH"] = wt; env["PYTHONDONTWRITEBYTECODE"] = "1"
    r0 = sh("cd %s && timeout 600 /venv/bin/python _demo.py" % wt, env=env)
    out["demo_clean_rc"] = r0.returncode
    ra = sh("git -C %s apply %s" % (wt, os.path.abspath(diff)))
    out["apply_rc"] = ra.returncode
    if ra.returncode != 0:
        out["apply_out"] = ra.stdout[-500:]
    r1 = sh("cd %s && timeout 600 /venv/bin/python _demo.py" % wt, env=env)
    out["demo_mutant_rc"] = r1.returncode
    out["demo_mutant_tail"] = r1.stdout[-300:]
    os.remove(dpath)
    rb = sh("python3 /verif/tools/baseline.py %s" % wt)
    out["baseline_rc"] = rb.returncode
    out["baseline"] = rb.stdout.strip().splitlines()[0] if rb.stdout.strip() else ""
    out["confirmed"] = (r0.returncode == 0 and ra.returncode == 0 and r1.returncode != 0 and rb.returncode == 0)
    out["checks"] = {}
    for c in checks:
        if c == "none":
            continue
        t0 = time.time()
        env2 = dict(os.environ); env2["VERIF_REPO"] = wt
        rc = sh("cd /verif && timeout 3000 ./vcheck %s --tier %s" % (c, tier), env=env2)
        keys = sorted(set(re.findall(r"^\s+key=(\S+)", rc.stdout, re.M)))
        out["checks"][c] = {"rc": rc.returncode, "wall_s": round(time.time() - t0, 1), "violation_keys": keys[:12],
                            "harness_errors": [l[:300] for l in rc.stdout.splitlines() if l.startswith("HARNESS-ERROR")][:5],
                            "tail": rc.stdout.strip().splitlines()[-1][:300] if rc.stdout.strip() else ""}
finally:
    sh("git -C /repo worktree remove --force %s" % wt)
    shutil.rmtree(wt, ignore_errors=True)
    sh("find /verif/replays -name '*.json' -delete")
print(json.dumps(out, indent=1))
