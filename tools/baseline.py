#!/usr/bin/env python3
"""Runs the repository's pinned test command (guard off) and checks every stable_pass test of BASELINE.json passes."""
import json, os, subprocess, sys, tempfile
import xml.etree.ElementTree as ET
b = json.load(open("/root/.vp/BASELINE.json"))
repo = sys.argv[1] if len(sys.argv) > 1 else "/repo"
with tempfile.TemporaryDirectory() as td:
    x = os.path.join(td, "j.xml")
    cmd = b["cmd"].replace("<file>", x).replace("cd /repo", "cd " + repo)
    env = dict(os.environ); env.pop("CSPUZ_VERIF", None)
    subprocess.run(cmd, shell=True, env=env, stdout=subprocess.DEVNULL, stderr=subprocess.DEVNULL)
    passed = set()
    for tc in ET.parse(x).getroot().iter("testcase"):
        if not any(c.tag in ("failure", "error", "skipped") for c in tc):
            passed.add(tc.get("classname") + "::" + tc.get("name"))
missing = [t for t in b["stable_pass"] if t not in passed]
print("stable_pass=%d passed_now=%d missing=%d" % (len(b["stable_pass"]), len(passed), len(missing)))
for m in missing[:20]:
    print("  MISSING", m)
sys.exit(1 if missing else 0)
