#!/usr/bin/env python3
"""record_seeded.py <seed-id> <PROP> <diff> <demo.py> <note.md> <try_mutant json file>
Stores a confirmed seeded change under /verif/seeded/<seed-id>/ (patch.diff, demo.py, meta.json)."""
import json, os, re, shutil, sys
sid, prop, diff, demo, note, res = sys.argv[1:7]
r = json.load(open(res))
d = os.path.join("/verif/seeded", sid)
os.makedirs(d, exist_ok=True)
shutil.copy(diff, os.path.join(d, "patch.diff"))
src = re.sub(r"/tmp/mut[234567]?/[A-Z]\d*", "/repo", open(demo).read())
open(os.path.join(d, "demo.py"), "w").write(src)
notes = open(note).read() if os.path.exists(note) else ""
caught = {c: (v["rc"] == 1) for c, v in r.get("checks", {}).items()}
meta = {"seed_id": sid, "property": prop, "breaks": notes.strip()[:1500],
        "confirmed_by_me": {"demo_exit_on_clean_tree": r.get("demo_clean_rc"), "demo_exit_with_patch": r.get("demo_mutant_rc"),
                            "pinned_suite_with_patch": r.get("baseline"), "how": "tools/try_mutant.py in a fresh scratch worktree of /repo HEAD (removed afterwards)"},
        "checks_run": r.get("checks"), "caught_by": [c for c, ok in caught.items() if ok],
        "missed_by": [c for c, ok in caught.items() if not ok]}
json.dump(meta, open(os.path.join(d, "meta.json"), "w"), indent=1)
print(sid, "caught_by", meta["caught_by"], "missed_by", meta["missed_by"])
