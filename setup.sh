#!/bin/bash
# Builds the overlay interpreter /verif/.venv (offline): /venv's packages + /repo + crosshair-tool.
set -e
cd "$(dirname "$0")"
V=.venv
if [ -x $V/bin/python ] && $V/bin/python -c "import crosshair, z3, cspuz, cvc5" 2>/dev/null; then
  exit 0
fi
rm -rf $V
/venv/bin/python -m venv $V
SP=$($V/bin/python -c "import sysconfig; print(sysconfig.get_paths()['purelib'])")
printf '/venv/lib/python3.12/site-packages\n/repo\n' > "$SP/verif_overlay.pth"
PIP_NO_INDEX=1 $V/bin/pip install -q --no-index --find-links /opt/veriftools/wheels crosshair-tool cvc5 >/dev/null 2>&1 || \
  PIP_NO_INDEX=1 $V/bin/pip install --no-index --find-links /opt/veriftools/wheels crosshair-tool cvc5
$V/bin/python -c "import crosshair, z3, cspuz; print('verif venv ok', z3.get_version_string())"
