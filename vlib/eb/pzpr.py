"""Independent pure-Python decoder of the pzpr (puzz.link / pzv) body encodings, written from the format description,
not from cspuz.  Used as the oracle of C16.  Raises PzprError on text outside the format."""
from typing import List, Optional, Tuple


class PzprError(Exception):
    pass


def _b36(c: str) -> int:
    o = ord(c)
    if 48 <= o <= 57:
        return o - 48
    if 97 <= o <= 122:
        return o - 87
    raise PzprError("not a base-36 digit: %r" % c)


def _hexv(c: str) -> int:
    v = _b36(c)
    if v >= 16:
        raise PzprError("not a hex digit: %r" % c)
    return v


def number16(body: str, pos: int, ncells: int, empty, unknown=None) -> Tuple[List, int]:
    """pzpr decodeNumber16: 0-f one digit, '-'+2 hex, '+'+3 hex, '.' = unknown ('?'), g..z = 1..20 empty cells"""
    out: List = []
    while len(out) < ncells:
        if pos >= len(body):
            raise PzprError("body too short")
        c = body[pos]
        if c == ".":
            out.append(unknown)
            pos += 1
        elif c == "-":
            out.append(_hexv(body[pos + 1]) * 16 + _hexv(body[pos + 2]) if pos + 2 < len(body) else _short())
            pos += 3
        elif c == "+":
            out.append(_hexv(body[pos + 1]) * 256 + _hexv(body[pos + 2]) * 16 + _hexv(body[pos + 3]) if pos + 3 < len(body) else _short())
            pos += 4
        else:
            v = _b36(c)
            if v < 16:
                out.append(v)
            else:
                out += [empty] * (v - 15)
            pos += 1
    if len(out) > ncells:
        # a skip run may run past the end of the board only at the very end; pzpr tolerates it, canonical encoders never emit it
        raise PzprError("skip run past the end of the board")
    return out, pos


def _short():
    raise PzprError("body too short")


def number4_spaces(body: str, pos: int, ncells: int, empty) -> Tuple[List, int]:
    """pzpr decode4Cell (slitherlink): 0-4 clue; 5-9 clue+1 blank; a-e clue+2 blanks; g..z = 1..20 blanks"""
    out: List = []
    while len(out) < ncells:
        if pos >= len(body):
            raise PzprError("body too short")
        v = _b36(body[pos])
        pos += 1
        if v < 15:
            out.append(v % 5)
            out += [empty] * (v // 5)
        elif v == 15:
            raise PzprError("'f' is not used")
        else:
            out += [empty] * (v - 15)
    if len(out) > ncells:
        out = out[:ncells] if all(x == empty for x in out[ncells:]) else _bad("overrun")
    return out, pos


def _bad(msg):
    raise PzprError(msg)


def base3_triples(body: str, pos: int, ncells: int) -> Tuple[List[int], int]:
    """pzpr decodeCircle (masyu): each char = three cells in base 3, most significant first"""
    out: List[int] = []
    while len(out) < ncells:
        if pos >= len(body):
            raise PzprError("body too short")
        v = _b36(body[pos])
        pos += 1
        if v >= 27:
            raise PzprError("triple out of range")
        out += [v // 9, (v // 3) % 3, v % 3]
    extra = out[ncells:]
    if any(extra):
        raise PzprError("non-zero padding")
    return out[:ncells], pos


def borders(body: str, pos: int, h: int, w: int) -> Tuple[List[List[int]], List[List[int]], int]:
    """pzpr decodeBorder: vertical borders (h x (w-1)) then horizontal borders ((h-1) x w), 5 bits per base-32 char,
    most significant bit first, each of the two streams padded separately"""
    def stream(n, pos):
        bits: List[int] = []
        while len(bits) < n:
            if pos >= len(body):
                raise PzprError("body too short")
            v = _b36(body[pos])
            pos += 1
            if v >= 32:
                raise PzprError("border digit out of range")
            bits += [(v >> k) & 1 for k in (4, 3, 2, 1, 0)]
        if any(bits[n:]):
            raise PzprError("non-zero padding")
        return bits[:n], pos
    vb, pos = stream(h * (w - 1), pos)
    hb, pos = stream((h - 1) * w, pos)
    vertical = [vb[y * (w - 1):(y + 1) * (w - 1)] for y in range(h)]
    horizontal = [hb[y * w:(y + 1) * w] for y in range(h - 1)]
    return vertical, horizontal, pos


def rooms_from_borders(h: int, w: int, vertical, horizontal) -> List[List[Tuple[int, int]]]:
    """rooms = connected components, numbered in row-major order of their first cell, cells in row-major order"""
    rid = [[-1] * w for _ in range(h)]
    n = 0
    for sy in range(h):
        for sx in range(w):
            if rid[sy][sx] != -1:
                continue
            stack = [(sy, sx)]
            rid[sy][sx] = n
            while stack:
                y, x = stack.pop()
                nbrs = []
                if y > 0 and not horizontal[y - 1][x]:
                    nbrs.append((y - 1, x))
                if y + 1 < h and not horizontal[y][x]:
                    nbrs.append((y + 1, x))
                if x > 0 and not vertical[y][x - 1]:
                    nbrs.append((y, x - 1))
                if x + 1 < w and not vertical[y][x]:
                    nbrs.append((y, x + 1))
                for (yy, xx) in nbrs:
                    if rid[yy][xx] == -1:
                        rid[yy][xx] = n
                        stack.append((yy, xx))
            n += 1
    rooms: List[List[Tuple[int, int]]] = [[] for _ in range(n)]
    for y in range(h):
        for x in range(w):
            rooms[rid[y][x]].append((y, x))
    return rooms


def arrow_numbers(body: str, pos: int, ncells: int):
    """pzpr decodeArrowNumber16 (yajilin): '0'..'4' dir + one hex digit ('.' = unknown number); '5'..'9' dir+5 + two hex
    digits; 'a'..'z' = 1..26 empty cells.  Returns list of None (empty) / (dir, number or None)"""
    out: List = []
    while len(out) < ncells:
        if pos >= len(body):
            raise PzprError("body too short")
        c = body[pos]
        o = ord(c)
        if 48 <= o <= 52:
            if pos + 1 >= len(body):
                raise PzprError("body too short")
            n = body[pos + 1]
            out.append((o - 48, None if n == "." else _hexv(n)))
            pos += 2
        elif 53 <= o <= 57:
            if pos + 2 >= len(body):
                raise PzprError("body too short")
            out.append((o - 53, _hexv(body[pos + 1]) * 16 + _hexv(body[pos + 2])))
            pos += 3
        elif 97 <= o <= 122:
            out += [None] * (o - 96)
            pos += 1
        else:
            raise PzprError("bad arrow-number char %r" % c)
    if len(out) > ncells:
        raise PzprError("skip run past the end of the board")
    return out, pos


def split_url(url: str):
    """'<prefix>?<name>/<f1>/<f2>/.../<body>' -> (prefix, [fields]) ; prefix must end in '/p?' or '/p.html?'"""
    q = url.find("?")
    if q < 0:
        raise PzprError("no '?'")
    return url[:q + 1], url[q + 1:].split("/")
