import vlib.eb.models  # PYTHONPATH contains /verif (set by vlib/eb/runner.py)
vlib.eb.models.install()
