"""Pure-Python models of two C builtins that make CrossHair fall back to per-value concretisation.

model_hex(n)        == hex(n)         for every int
model_int(s, base)  == int(s, base)   for every str s and base 2..36 (exact on all of Unicode when run concretely:
                                      whitespace as int() strips it, decimal digits of other scripts via the table of
                                      zero code points of each Nd run).
Under CrossHair one cut is made (install() sets _IGNORE_ND): a path on which int() meets a *non-ASCII* decimal digit is
ignored (IgnoreAttempt = treated like a failed precondition).  The checks cover those characters with a finite table.
Both models are validated against the real builtins by validate() (called by the checks at start-up, concretely).
"""
import sys
import unicodedata

# zero code points of every run of ten Unicode decimal digits (category Nd), computed from this interpreter's tables
ND_ZEROS = [cp for cp in range(128, sys.maxunicode + 1) if unicodedata.category(chr(cp)) == "Nd" and unicodedata.decimal(chr(cp)) == 0]

_REAL_INT = int
_REAL_HEX = hex
_PREV_INT = None
_IGNORE_ND = False


def _hex_digit(d):
    return chr(48 + d) if d < 10 else chr(87 + d)


def model_hex(n):
    if not isinstance(n, int):
        return _REAL_HEX(n)
    neg = n < 0
    if neg:
        n = -n
    if n == 0:
        return "0x0"
    ds = ""
    while n > 0:
        ds = _hex_digit(n % 16) + ds
        n = n // 16
    return ("-0x" if neg else "0x") + ds


def _digit_value(c):
    """value of a character as a digit in bases up to 36, or -1"""
    o = ord(c)
    if 48 <= o <= 57:
        return o - 48
    if 97 <= o <= 122:
        return o - 87
    if 65 <= o <= 90:
        return o - 55
    if o < 128:
        return -1
    if not c.isdecimal():
        return -1
    if _IGNORE_ND:
        from crosshair.util import IgnoreAttempt
        raise IgnoreAttempt("non-ASCII decimal digit reaches int()")
    for z in ND_ZEROS:
        if z <= o <= z + 9:
            return o - z
    return -1


def _is_zero_char(c):
    o = ord(c)
    if o < 128:
        return o == 48
    return c.isdecimal() and _digit_value(c) == 0


def _is_int_space(c):
    """what int() strips: C isspace() for ASCII (0x1c-0x1f are str.isspace() but are not stripped), str.isspace() beyond"""
    o = ord(c)
    if o < 128:
        return o == 32 or 9 <= o <= 13
    return c.isspace()


def _parse_int_str(s, base):
    n = len(s)
    i, j = 0, n
    while i < j and _is_int_space(s[i]):
        i += 1
    while j > i and _is_int_space(s[j - 1]):
        j -= 1
    if i >= j:
        raise ValueError("invalid literal for int() with base %d" % base)
    neg = False
    if s[i] == "+" or s[i] == "-":
        neg = s[i] == "-"
        i += 1
        if i >= j:
            raise ValueError("invalid literal for int()")
    if i + 1 < j and _is_zero_char(s[i]) and (
            (base == 16 and s[i + 1] in "xX") or (base == 8 and s[i + 1] in "oO") or (base == 2 and s[i + 1] in "bB")):
        i += 2
        if i < j and s[i] == "_":
            i += 1
    if i >= j:
        raise ValueError("invalid literal for int()")
    val = 0
    prev_us = True      # an underscore is not allowed first
    while i < j:
        c = s[i]
        if c == "_":
            if prev_us:
                raise ValueError("invalid literal for int()")
            prev_us = True
        else:
            d = _digit_value(c)
            if d < 0 or d >= base:
                raise ValueError("invalid literal for int()")
            val = val * base + d
            prev_us = False
        i += 1
    if prev_us:
        raise ValueError("invalid literal for int()")
    return -val if neg else val


def model_int(*a, **kw):
    if len(a) >= 1 and isinstance(a[0], str) and not kw:
        if len(a) == 1:
            return _parse_int_str(a[0], 10)
        if len(a) == 2 and isinstance(a[1], _REAL_INT):
            b = a[1]
            if 2 <= b <= 36:      # base 0 is left to CrossHair's own (realising) patch; cspuz never uses it
                return _parse_int_str(a[0], b)
    if _PREV_INT is not None:
        return _PREV_INT(*a, **kw)
    return _REAL_INT(*a, **kw)


def install():
    """override CrossHair's own (realising) patches for hex and int"""
    global _PREV_INT, _IGNORE_ND
    import crosshair.core as core
    regs = core._PATCH_REGISTRATIONS
    _PREV_INT = regs.get(int)
    regs[hex] = model_hex
    regs[int] = model_int
    _IGNORE_ND = True


def nd_chars():
    return [chr(z + k) for z in ND_ZEROS for k in range(10)]


def validate(rng=None, extra=2000):
    """concrete comparison with the real builtins (no CrossHair in the loop)"""
    import itertools
    import random
    rng = rng or random.Random(0)
    n = 0
    for v in list(range(-4200, 4200)) + [rng.randrange(-10**12, 10**12) for _ in range(200)]:
        assert model_hex(v) == hex(v), v
        n += 1
    alpha = [chr(c) for c in range(32, 127)] + ["\t", "\n", "\x0b", "\x0c", "\r", "\x1c", "\x85", "\xa0", " ", "　",
                                                 "٠", "٩", "१", "０", "９", "\U0001d7ce", "\U0001d7ff", "\xb2", "①", "一"]

    def same(s, b):
        try:
            want = ("ok", int(s, b))
        except ValueError:
            want = ("ValueError", None)
        try:
            got = ("ok", _parse_int_str(s, b))
        except ValueError:
            got = ("ValueError", None)
        assert got == want, (s, b, got, want)
    for L in (0, 1, 2):
        for t in itertools.product(alpha, repeat=L):
            s = "".join(t)
            for b in (10, 16, 36):
                same(s, b)
                n += 1
    for _ in range(extra):
        L = rng.randint(1, 6)
        s = "".join(rng.choice(alpha + list("0123456789abcdefxXoObB_+- ")) for _ in range(L))
        for b in (2, 8, 10, 16, 36):
            same(s, b)
            n += 1
    for cp in range(sys.maxunicode + 1):      # every code point as a single character
        if 0xD800 <= cp <= 0xDFFF:
            continue
        c = chr(cp)
        for b in (10, 16):
            same(c, b)
        n += 1
    return n
