"""CrossHair harness for C20: backend-name dispatch for every string."""
import cspuz.backend.sugar_like as SL
import cspuz.backend.z3 as BZ
from cspuz.solver import _get_backend, _get_backend_by_name

_DOC = {"sugar": "SugarBackend", "sugar_extended": "SugarExtendedBackend", "z3": "Z3Backend", "csugar": "CSugarBackend",
        "enigma_csp": "EnigmaCSPBackend", "cspuz_core": "CspuzCoreBackend"}


def h_backend_by_name(name: str) -> bool:
    """
    the documented class for each of the six names, ValueError for every other string
    pre: len(name) <= 15
    post: _
    """
    try:
        cls = _get_backend_by_name(name)
    except ValueError:
        return name not in _DOC
    if name not in _DOC:
        return False
    want = getattr(BZ if name == "z3" else SL, _DOC[name])
    return cls is want and _get_backend(name) is want


def h_backend_class_passthrough(k: int) -> bool:
    """
    a class given as backend is used as is
    pre: 0 <= k <= 2
    post: _
    """
    cls = [SL.CSugarBackend, BZ.Z3Backend, dict][k]
    return _get_backend(cls) is cls
