"""CrossHair harnesses for C15 / C16 / C17: serializer combinators and puzzle codecs.

Selected through the environment (one OS process per condition):
  VERIF_CODEC  name in REGISTRY      VERIF_H / VERIF_W  declared board size      VERIF_L  max text length
"""
import os
from typing import List, Optional, Tuple

from cspuz.problem_serializer import (
    CombinatorEnv, DecInt, Dict, FixStr, Grid, HexInt, IntSpaces, MultiDigit, OneOf, Rooms, Seq, Spaces, Tupl, ValuedRooms,
    deserialize_problem, serialize_problem,
)

CODEC = os.environ.get("VERIF_CODEC", "HexInt")
H = int(os.environ.get("VERIF_H", "1"))
W = int(os.environ.get("VERIF_W", "2"))
L = int(os.environ.get("VERIF_L", "3"))


def _puzzle(mod, attr):
    import importlib
    return getattr(importlib.import_module("cspuz.puzzle." + mod), attr)


# name -> (kind, factory).  kind: 'leaf' (item-level combinator), 'top' (one value for the whole board)
REGISTRY = {
    "FixStr": ("leaf", lambda: FixStr("ab")),
    "Dict": ("leaf", lambda: Dict([1, 2, 3], ["x", "yz", "y"])),
    "Spaces_g": ("leaf", lambda: Spaces(0, "g")),
    "Spaces_a": ("leaf", lambda: Spaces(0, "a")),
    "Spaces_z": ("leaf", lambda: Spaces(0, "z")),
    "Spaces_0": ("leaf", lambda: Spaces(0, "0")),       # digit 'smallest': run codes cross from digits into letters
    "Spaces_5": ("leaf", lambda: Spaces(0, "5")),
    "Spaces_9": ("leaf", lambda: Spaces(0, "9")),
    "DecInt": ("leaf", lambda: DecInt()),
    "HexInt": ("leaf", lambda: HexInt()),
    "IntSpaces": ("leaf", lambda: IntSpaces(-1, max_int=4, max_num_spaces=2)),
    "MultiDigit33": ("leaf", lambda: MultiDigit(base=3, digits=3)),
    "MultiDigit25": ("leaf", lambda: MultiDigit(base=2, digits=5)),
    "OneOf_SpacesHex": ("leaf", lambda: OneOf(Spaces(-1, "g"), HexInt())),
    "OneOf_DictSpacesHex": ("leaf", lambda: OneOf(Dict([-1], ["."]), Spaces(0, "g"), HexInt())),
    "OneOf_HexDictUpper": ("leaf", lambda: OneOf(HexInt(), Dict([-1, -2, -3], ["A", "F", "G"]))),     # codes that only differ in case from hex digits
    "Seq_Hex": ("top", lambda: Seq(HexInt(), W)),
    "Seq_SpacesHex": ("top", lambda: Seq(OneOf(Spaces(-1, "g"), HexInt()), W)),
    "Seq_MultiDigit33": ("top", lambda: Seq(MultiDigit(base=3, digits=3), W)),
    "Seq_IntSpaces": ("top", lambda: Seq(OneOf(Spaces(-1, "g"), IntSpaces(-1, max_int=4, max_num_spaces=2)), W)),
    "Tupl_HexDec": ("top", lambda: Tupl(HexInt(), DecInt())),
    "Tupl_SeqSeq": ("top", lambda: Tupl(Seq(HexInt(), 1), Seq(OneOf(Spaces(0, "g"), HexInt()), W))),
    "Grid_SpacesHex": ("top", lambda: Grid(OneOf(Spaces(-1, "g"), HexInt()))),
    "Grid_fixed": ("top", lambda: Grid(HexInt(), height=1, width=2)),
    "Rooms": ("top", lambda: Rooms()),
    "Rooms_skip": ("top", lambda: Rooms(skip_on_error=True)),
    "Rooms_redundant": ("top", lambda: Rooms(allow_redundant_border=True)),
    "ValuedRooms": ("top", lambda: ValuedRooms(OneOf(HexInt(), Spaces(-1, "g")))),
    "ValuedRooms_hex": ("top", lambda: ValuedRooms(HexInt())),
    "Tupl_Hex_VRooms": ("top", lambda: Tupl(HexInt(), FixStr("/"), ValuedRooms(HexInt()))),
    "Tupl_Hex_Rooms": ("top", lambda: Tupl(Seq(HexInt(), 1), Rooms())),
    "nurikabe": ("top", lambda: _puzzle("nurikabe", "NURIKABE_COMBINATOR")),
    "masyu": ("top", lambda: _puzzle("masyu", "MASYU_COMBINATOR")),
    "slitherlink": ("top", lambda: _puzzle("slitherlink", "SLITHERLINK_COMBINATOR")),
    "sudoku": ("top", lambda: _puzzle("sudoku", "SUDOKU_COMBINATOR")),
    "nurimisaki": ("top", lambda: _puzzle("nurimisaki", "NURIMISAKI_COMBINATOR")),
    "yajilin": ("top", lambda: _puzzle("yajilin", "YAJILIN_COMBINATOR")),
    "heyawake": ("top", lambda: _puzzle("heyawake", "HEYAWAKE_COMBINATOR")),
    "lits": ("top", lambda: _puzzle("lits", "LITS_COMBINATOR")),
    "norinori": ("top", lambda: _puzzle("norinori", "NORINORI_COMBINATOR")),
}
GRID_LIKE = ("Grid_SpacesHex", "nurikabe", "masyu", "slitherlink", "sudoku", "nurimisaki", "yajilin")
ROOM_LIKE = ("Rooms", "Rooms_skip", "Rooms_redundant", "lits", "norinori")
VROOM_LIKE = ("ValuedRooms", "ValuedRooms_hex", "heyawake")

KIND, _FACTORY = REGISTRY[CODEC]
COMB = _FACTORY()


def _env() -> CombinatorEnv:
    return CombinatorEnv(height=H, width=W)


def _dims_ok(v) -> bool:
    """a returned problem has the declared dimensions"""
    if CODEC in GRID_LIKE:
        return isinstance(v, list) and len(v) == H and all(isinstance(r, list) and len(r) == W for r in v)
    if CODEC in ROOM_LIKE or CODEC in VROOM_LIKE:
        rooms = v[0] if CODEC in VROOM_LIKE else v
        cells = [c for room in rooms for c in room]
        if sorted(cells) != [(y, x) for y in range(H) for x in range(W)]:
            return False
        if CODEC in VROOM_LIKE and len(v[1]) != len(rooms):
            return False
        return True
    return True


def _leaf_encode_all(vals: list) -> Optional[str]:
    """encode a whole item list with repeated leaf serialisation"""
    env = _env()
    out = ""
    i = 0
    while i < len(vals):
        r = COMB.serialize(env, vals, i)
        if r is None:
            return None
        k, t = r
        if k <= 0:
            return None
        i += k
        out += t
    return out


def _leaf_decode_all(text: str) -> Optional[list]:
    env = _env()
    out: list = []
    i = 0
    guard = 0
    while i < len(text):
        r = COMB.deserialize(env, text, i)
        if r is None:
            return None
        k, vs = r
        if k <= 0:
            return None
        i += k
        out += vs
        guard += 1
        if guard > 64:
            return None
    return out


PRIOR = os.environ.get("VERIF_PRIOR", "")      # "h,w,body": a decode of another board size performed first (history)


def _prior_call():
    if not PRIOR:
        return
    ph, pw, body = PRIOR.split(",", 2)
    try:
        v = deserialize_problem(COMB, body, height=int(ph), width=int(pw))
        if v is not None:
            serialize_problem(COMB, v, height=int(ph), width=int(pw))
    except ValueError:
        pass


def h_text(s: str) -> bool:
    """
    Text side (C15/C17): any text of length <= L.  Decoding must not fail with anything but ValueError; a returned value
    has the declared dimensions, serialises, and the canonical text decodes to the same value, consuming it entirely.
    pre: len(s) <= L
    post: _
    """
    env = _env()
    _prior_call()
    if KIND == "leaf":
        try:
            r = COMB.deserialize(env, s, 0)
        except ValueError:
            return True
        if r is None:
            return True
        n, vals = r
        if not (0 <= n <= len(s)):
            return False
        if CODEC == "FixStr":
            return vals == [] and s[:n] == "ab"
        t = _leaf_encode_all(vals)
        if t is None:
            return False
        back = _leaf_decode_all(t)
        return back == vals
    try:
        v = deserialize_problem(COMB, s, height=H, width=W)
    except ValueError:
        return True
    if v is None:
        return True
    if not _dims_ok(v):
        return False
    t = serialize_problem(COMB, v, height=H, width=W)
    r2 = COMB.deserialize(env, t, 0)
    if r2 is None:
        return False
    n2, v2 = r2
    return n2 == len(t) and len(v2) == 1 and v2[0] == v


# ---- value side --------------------------------------------------------------------------------------------------
def _roundtrip_items(vals: list) -> bool:
    """leaf level: if the first item(s) are accepted, the produced text decodes to exactly the consumed items"""
    env = _env()
    r = COMB.serialize(env, vals, 0)
    if r is None:
        return True
    k, t = r
    if not (0 <= k <= len(vals)):
        return False
    d = COMB.deserialize(env, t, 0)
    if d is None:
        return False
    n, back = d
    if n != len(t):
        return False
    if CODEC.startswith("MultiDigit"):
        # a partial final group is padded with zeros by the format; the consumed items must be a prefix
        return back[:k] == vals[:k] and all(x == 0 for x in back[k:])
    return back == vals[:k]


def h_value_int(v: int, spaces_after: int, tail: int) -> bool:
    """
    one symbolic integer item followed by `spaces_after` space items and one more item
    pre: -3 <= v <= 4100 and 0 <= spaces_after <= 3 and -1 <= tail <= 20
    post: _
    """
    space = -1 if CODEC in ("IntSpaces", "OneOf_SpacesHex") else 0
    return _roundtrip_items([v] + [space] * spaces_after + [tail])


def h_value_dec(v: int) -> bool:
    """
    pre: -2 <= v <= 300
    post: _
    """
    return _roundtrip_items([v])


def h_value_run(n: int, other: int) -> bool:
    """
    a run of n space items (across the 1-character limit) followed by another item
    pre: 0 <= n <= 40 and -1 <= other <= 17
    post: _
    """
    space = -1 if CODEC in ("IntSpaces", "OneOf_SpacesHex") else 0
    return _roundtrip_items([space] * n + [other])


def h_value_digits(a: int, b: int, c: int, d: int, m: int) -> bool:
    """
    m <= 4 digit items (rows ending in partial digit groups)
    pre: -1 <= a <= 3 and -1 <= b <= 3 and -1 <= c <= 3 and -1 <= d <= 3 and 1 <= m <= 4
    post: _
    """
    return _roundtrip_items([a, b, c, d][:m])


def h_value_seq(a: int, b: int, c: int) -> bool:
    """
    top-level Seq/Grid-like codecs on a 1 x W board (W <= 3): symbolic cells
    pre: -2 <= a <= 4100 and -2 <= b <= 300 and -2 <= c <= 20
    post: _
    """
    cells = [a, b, c][:W]
    if CODEC.startswith("Seq"):
        value = cells
    elif CODEC == "Tupl_HexDec":
        value = ([a], [b])
    elif CODEC == "Tupl_SeqSeq":
        value = ([[a]], [cells])
    else:
        value = [cells[i * W:(i + 1) * W] for i in range(H)] if H == 1 else None
    env = _env()
    try:
        r = COMB.serialize(env, [value], 0)
    except (TypeError, IndexError):
        return True      # value outside the format's domain (e.g. too few cells); serialisation may reject it any way it likes
    if r is None:
        return True
    k, t = r
    d = COMB.deserialize(env, t, 0)
    if d is None:
        return False
    n, back = d
    return k == 1 and n == len(t) and back == [value]


def h_value_grid(c0: int, c1: int, c2: int, c3: int, c4: int, c5: int) -> bool:
    """
    grid codecs on the declared H x W board (H*W <= 6), symbolic cells over the codec's alphabet (+- 1 beyond it)
    pre: LO <= c0 <= HI and LO <= c1 <= HI and LO <= c2 <= HI and LO <= c3 <= HI and LO <= c4 <= HI and LO <= c5 <= HI
    post: _
    """
    cells = [c0, c1, c2, c3, c4, c5][:H * W]
    value = [cells[i * W:(i + 1) * W] for i in range(H)]
    env = _env()
    _prior_call()
    r = COMB.serialize(env, [value], 0)
    if r is None:
        return True
    k, t = r
    d = COMB.deserialize(env, t, 0)
    if d is None:
        return False
    n, back = d
    return k == 1 and n == len(t) and back == [value]


_ALPHABET = {"nurikabe": (-2, 17), "masyu": (-1, 3), "slitherlink": (-2, 5), "sudoku": (-1, 17), "nurimisaki": (-2, 17),
             "Grid_SpacesHex": (-2, 17)}
LO, HI = _ALPHABET.get(CODEC, (-2, 17))


# ---- rooms: orderings ------------------------------------------------------------------------------------------
_PERMS = [(0, False, 0, False), (1, False, 0, False), (0, True, 0, False), (0, False, 1, False), (0, False, 0, True), (1, True, 1, True),
          (2, False, 1, True), (2, True, 0, False)]
NPERM = int(os.environ.get("VERIF_NPERM", "6"))


def h_rooms_order(s: str, pcode: int, vsel: bool) -> bool:
    """
    decode a symbolic body to the canonical rooms, permute the room list (rotation/reversal) and each room's cell list,
    serialise: the text must be the canonical text and decode to the canonical value with values attached to the same rooms
    pre: len(s) <= L and 0 <= pcode < NPERM
    post: _
    """
    rot, rev, cellrot, cellrev = _PERMS[pcode]
    v0, v1, v2 = (1, 15, 255) if vsel else (0, 16, 256)
    env = _env()
    room_comb = Rooms()
    try:
        r = room_comb.deserialize(env, s, 0)
    except ValueError:
        return True
    if r is None:
        return True
    rooms = r[1][0]
    k = len(rooms)
    vals = [v0, v1, v2, v0, v1, v2][:k] if k <= 6 else None
    if vals is None:
        return True
    canon_v = (rooms, vals)

    def perm(lst, rot_, rev_):
        if not lst:
            return lst
        j = rot_ % len(lst)
        out = lst[j:] + lst[:j]
        return out[::-1] if rev_ else out
    rooms2 = [perm(room, cellrot, cellrev) for room in perm(rooms, rot, rev)]
    vals2 = perm(vals, rot, rev)
    if CODEC in ROOM_LIKE:
        t1 = serialize_problem(COMB, rooms, height=H, width=W)
        t2 = serialize_problem(COMB, rooms2, height=H, width=W)
        back = deserialize_problem(COMB, t2, height=H, width=W)
        return t1 == t2 and back == rooms
    t1 = serialize_problem(COMB, (rooms, vals), height=H, width=W)
    t2 = serialize_problem(COMB, (rooms2, vals2), height=H, width=W)
    back = deserialize_problem(COMB, t2, height=H, width=W)
    if back is None:
        return False
    # values still attached to the same rooms: compare as room -> value maps keyed by the room's cell set
    want = {tuple(sorted(room)): v for room, v in zip(rooms, vals)}
    got = {tuple(sorted(room)): v for room, v in zip(back[0], back[1])}
    return got == want and back[0] == rooms


# ---- URL level (C17) -----------------------------------------------------------------------------------------------
from cspuz.problem_serializer import deserialize_problem_as_url, get_puzzle_info_from_url, serialize_problem_as_url  # noqa: E402

URL_BODIES = {
    "nurikabe": ["", "g", "1g", "-10", "h", "2.g1", "--1g", "zz"],
    "sudoku": ["", "g", "1g", "+100g", "i", "12", "3"],
    "masyu": ["", "0", "a", "aa", "q", "r"],
    "slitherlink": ["", "g", "5", "a", "0g", "cc", "f"],
    "nurimisaki": ["", "g", ".g", "1.", "-1f", "k"],
    "yajilin": ["", "a", "11a", "0.a", "b", "1", "4f", "110"],
    "heyawake": ["", "0", "00", "g0", "01", "8g", "001g", "v"],
    "lits": ["", "0", "00", "g", "g0", "vv", "8"],
    "norinori": ["", "0", "00", "g", "w"],
    "Grid_SpacesHex": ["", "g", "1", "gg"],
    "Rooms": ["", "0", "00"],
    "ValuedRooms": ["", "0", "001"],
}


DMAX = int(os.environ.get("VERIF_DMAX", "2"))


def h_url_fields(w: int, h: int, name_kind: int, body_idx: int, allow_failure: bool, return_size: bool) -> bool:
    """
    well-formed URL with symbolic declared width / height (0..DMAX), right / wrong puzzle name, fixed list of bodies
    pre: 0 <= w <= DMAX and 0 <= h <= DMAX and 0 <= name_kind <= 2 and 0 <= body_idx < len(URL_BODIES[CODEC])
    pre: name_kind == 0 or (allow_failure and not return_size)
    post: _
    """
    name = [CODEC, "other", CODEC + "x"][name_kind]
    url = "https://puzz.link/p?" + name + "/" + str(w) + "/" + str(h) + "/" + URL_BODIES[CODEC][body_idx]
    info = get_puzzle_info_from_url(url)
    if info != (name, h, w):
        return False
    try:
        r = deserialize_problem_as_url(COMB, url, allowed_puzzles=[CODEC], allow_failure=allow_failure, return_size=return_size)
    except ValueError:
        return True
    if r is None:
        return True
    if name_kind != 0:
        return False       # a URL of another puzzle must be rejected when allowed_puzzles is given
    if return_size:
        if not (isinstance(r, tuple) and len(r) == 3 and r[0] == h and r[1] == w):
            return False
        v = r[2]
    else:
        v = r
    # the returned problem has the declared dimensions and is re-encodable to a URL that decodes to itself
    global H, W
    saved = (H, W)
    H, W = h, w
    try:
        if not _dims_ok(v):
            return False
    finally:
        H, W = saved
    url2 = serialize_problem_as_url(COMB, CODEC, h, w, v)
    if deserialize_problem_as_url(COMB, url2, allowed_puzzles=CODEC) != v:
        return False
    # the puzzle module's own entry points: what deserialize_<puzzle> hands out, serialize_<puzzle> accepts and reproduces
    return _module_api_roundtrip(h, w, body_idx)


def _module_api_roundtrip(h: int, w: int, body_idx: int) -> bool:
    import importlib
    mod = importlib.import_module("cspuz.puzzle." + CODEC)
    ser, des = getattr(mod, "serialize_" + CODEC, None), getattr(mod, "deserialize_" + CODEC, None)
    if ser is None or des is None:
        return True
    urlname = "slither" if CODEC == "slitherlink" else CODEC
    url = "https://puzz.link/p?" + urlname + "/" + str(w) + "/" + str(h) + "/" + URL_BODIES[CODEC][body_idx]
    try:
        got = des(url)
    except ValueError:
        return True
    if got is None:
        return True
    if CODEC in ("lits", "norinori"):
        again = ser(got[0], got[1], got[2])
    elif CODEC == "heyawake":
        again = ser(got[0], got[1], *got[2])
    else:
        again = ser(got)
    return des(again) == got


def h_url_any(url: str, allow_failure: bool) -> bool:
    """
    an arbitrary short string presented as a URL (never well-formed at this length): None or ValueError only
    pre: len(url) <= L
    post: _
    """
    try:
        r = deserialize_problem_as_url(COMB, url, allow_failure=allow_failure)
    except ValueError:
        return True
    if get_puzzle_info_from_url(url) is not None:
        return False
    return r is None
