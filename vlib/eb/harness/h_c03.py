"""CrossHair harnesses for C03: reply parsing of the Sugar-family back ends (both formats of CspuzSugarInterface.java)."""
import os

from cspuz.expr import BoolVar, IntVar
from cspuz.backend.sugar_like import CSugarBackend, SugarBackend, SugarExtendedBackend

RB = int(os.environ.get("VERIF_RB", "99"))


def _b(v: bool) -> str:
    return "true" if v else "false"


def _backend(base, reply, variables):
    class B(base):
        def _call_solver(self, csp_description: str) -> str:
            return reply
    return B(variables)


def h_reply_plain(bval: bool, ival: int, b2: bool, ints_first: bool) -> bool:
    """
    pre: -RB <= ival <= RB
    post: _
    """
    b, i, c = BoolVar(0), IntVar(1, -RB, RB), BoolVar(2)
    lines = ["s SATISFIABLE"]
    il = ["a i1\t" + str(ival)]
    bl = ["a b0\t" + _b(bval), "a b2\t" + _b(b2)]
    lines += (il + bl) if ints_first else (bl + il)
    lines.append("a")
    be = _backend(SugarBackend, "\n".join(lines) + "\n", [b, i, c])
    r = be.solve()
    return (r is True and b.sol is bval and c.sol is b2 and type(i.sol) is int and i.sol == ival)


def h_reply_unsat(deduction: bool, k0: bool) -> bool:
    """
    post: _
    """
    b, i = BoolVar(0), IntVar(1, 0, 5)
    b.sol, i.sol = True, 3
    if deduction:
        be = _backend(CSugarBackend, "unsat\n", [b, i])
        r = be.solve_irrefutably([k0, True])
    else:
        be = _backend(SugarBackend, "s UNSATISFIABLE\n", [b, i])
        r = be.solve()
    # an unsatisfiable reply leaves no stale value from an earlier solve behind
    return r is False and b.sol is None and i.sol is None


def h_reply_deduction(bval: bool, ival: int, list_b: bool, list_i: bool, key_c: bool, cval: bool) -> bool:
    """
    pre: -RB <= ival <= RB
    post: _
    """
    b, i, c = BoolVar(0), IntVar(1, -RB, RB), BoolVar(2)
    b.sol, i.sol, c.sol = (not bval), 0, True       # stale values from an earlier solve must not survive
    lines = ["sat"]
    if list_i:
        lines.append("i1 " + str(ival))
    if list_b:
        lines.append("b0 " + _b(bval))
    if key_c:
        lines.append("b2 " + _b(cval))
    be = _backend(SugarExtendedBackend, "\n".join(lines) + "\n", [b, i, c])
    r = be.solve_irrefutably([True, True, key_c])
    if r is not True:
        return False
    if list_b:
        if b.sol is not bval:
            return False
    elif b.sol is not None:
        return False
    if list_i:
        if type(i.sol) is not int or i.sol != ival:
            return False
    elif i.sol is not None:
        return False
    if key_c:
        return c.sol is cval
    return c.sol is None


def h_reply_ids(bval: bool, ival: int, perm: int) -> bool:
    """
    variable ids differ from positions in the list handed to the back end
    pre: -RB <= ival <= RB and 0 <= perm <= 2
    post: _
    """
    b, i, c = BoolVar(7), IntVar(3, -RB, RB), BoolVar(5)
    vs = [[b, i, c], [c, b, i], [i, c, b]][perm]
    reply = "s SATISFIABLE\na i3\t" + str(ival) + "\na b7\t" + _b(bval) + "\na b5\t" + _b(not bval) + "\na\n"
    be = _backend(SugarBackend, reply, vs)
    if be.solve() is not True:
        return False
    if not (b.sol is bval and c.sol is (not bval) and type(i.sol) is int and i.sol == ival):
        return False
    reply2 = "sat\nb5 " + _b(bval) + "\n"
    be2 = _backend(CSugarBackend, reply2, vs)
    keys = [v is not i for v in vs]
    if be2.solve_irrefutably(keys) is not True:
        return False
    return c.sol is bval and b.sol is None and i.sol is None
