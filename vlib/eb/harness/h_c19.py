"""CrossHair harnesses for C19: deterministic PRNG helpers, neighbour generators, generate_problem soundness."""
import copy
import os
from typing import List, Optional

import cspuz.generator.deterministic_random as drandom
import cspuz.generator.srandom as srandom
import cspuz.generator.core as gcore
import cspuz.generator.segmentation as gseg
from cspuz.generator import ArrayBuilder2D, Choice, SegmentationBuilder2D, build_neighbor_generator, generate_problem

TWO32 = 1 << 32
N = int(os.environ.get("VERIF_N", "3"))


class Feed:
    """stands for XorShift: hands out the given draws in order (then repeats the last)"""

    def __init__(self, draws):
        self.draws = list(draws)
        self.i = 0

    def next(self):
        d = self.draws[min(self.i, len(self.draws) - 1)]
        self.i += 1
        return d


def _with_feed(draws):
    drandom._rng = Feed(draws)
    srandom._use_deterministic_prng = True


def h_randint(a: int, b: int, d0: int, d1: int) -> bool:
    """
    the real randint on a scripted stream d0, d1, 0, 0, ...: ValueError exactly for an empty or over-wide range; otherwise the
    value is a + (first draw below the acceptance limit) mod (b - a + 1), inside [a, b]   (independent of how randint is
    factored into helpers - this harness is what remains when the source-level translation cannot encode a refactoring)
    pre: -40 <= a <= 40 and -40 <= b <= 40 and 0 <= d0 < TWO32 and 0 <= d1 < TWO32
    post: _
    """
    _with_feed([d0, d1, 0])
    try:
        r = drandom.randint(a, b)
    except ValueError:
        return a > b
    if a > b:
        return False
    w = b - a + 1
    limit = TWO32 - TWO32 % w
    acc = d0 if d0 < limit else (d1 if d1 < limit else 0)
    return a <= r <= b and r == a + acc % w


def h_choice(d0: int, n: int) -> bool:
    """
    choice(cand) returns cand[k] for exactly the index randint(0, len-1) yields from the same draw
    pre: 0 <= d0 < TWO32 and 1 <= n <= 4
    post: _
    """
    cand = ["a", "b", "c", "d"][:n]
    limit = TWO32 - TWO32 % n
    if d0 >= limit:
        return True
    _with_feed([d0])
    return drandom.choice(cand) == cand[d0 % n]


def h_choice_empty(d0: int) -> bool:
    """
    pre: 0 <= d0 < TWO32
    post: _
    """
    _with_feed([d0])
    try:
        drandom.choice([])
    except ValueError:
        return True
    return False


def _shuffled(js: List[int]) -> List[int]:
    """run the real shuffle on [0..N-1] with randint answering js[i-1] at step i (draws chosen so that x % (i+1) == j)"""
    _with_feed(js)
    seq = list(range(N))
    drandom.shuffle(seq)
    return seq


def h_shuffle_injective(j1: int, j2: int, j3: int, k1: int, k2: int, k3: int) -> bool:
    """
    two different decision sequences of the Fisher-Yates steps give two different permutations; with N! sequences and N!
    permutations this is a bijection, i.e. uniform permutations from uniform randint
    pre: 0 <= j1 <= 1 and 0 <= j2 <= 2 and 0 <= j3 <= 3 and 0 <= k1 <= 1 and 0 <= k2 <= 2 and 0 <= k3 <= 3
    post: _
    """
    js, ks = [j1, j2, j3][:N - 1], [k1, k2, k3][:N - 1]
    a, b = _shuffled(js), _shuffled(ks)
    if sorted(a) != list(range(N)) or sorted(b) != list(range(N)):
        return False
    return (js == ks) == (a == b)


def h_shuffle_draws(j1: int, j2: int, j3: int) -> bool:
    """
    step i draws exactly one index from randint(0, i): the feed is consumed once per step, in order
    pre: 0 <= j1 <= 1 and 0 <= j2 <= 2 and 0 <= j3 <= 3
    post: _
    """
    js = [j1, j2, j3][:N - 1]
    _with_feed(js)
    seq = list(range(N))
    drandom.shuffle(seq)
    return drandom._rng.i == N - 1


# ---- reproducibility under the deterministic PRNG --------------------------------------------------------------
import random as _pyrandom  # noqa: E402


class _GlobalRandomStub:
    """replaces Python's global random functions by a feed; any use of them makes results depend on the feed"""

    def __init__(self, feed):
        self.feed = list(feed)
        self.i = 0
        self.used = 0

    def _n(self):
        # after the symbolic prefix the stream continues with an ever-changing tail derived from it (so retry loops terminate)
        v = self.feed[self.i] if self.i < len(self.feed) else self.i * 7 + 1 + self.feed[0] + 3 * self.feed[-1]
        self.i += 1
        self.used += 1
        return v

    def randint(self, a, b):
        return a + self._n() % (b - a + 1)

    def choice(self, seq):
        return seq[self._n() % len(seq)]

    def random(self):
        return (0.0, 0.3, 0.6, 0.95)[self._n() % 4]      # a table, so that no symbolic float arithmetic is needed

    def shuffle(self, seq):
        for i in range(1, len(seq)):
            j = self._n() % (i + 1)
            seq[i], seq[j] = seq[j], seq[i]


def _candidate_sequence(kind: str, feed: List[int]):
    stub = _GlobalRandomStub(feed)
    saved = {}
    for mod in (_pyrandom, ):
        for name in ("randint", "choice", "random", "shuffle"):
            saved[(mod, name)] = getattr(mod, name)
            setattr(mod, name, getattr(stub, name))
    try:
        srandom.use_deterministic_prng(True, seed=0 if kind in ("choice", "array_move") else 12345)
        if kind == "choice":
            pattern = [Choice([0, 1, 2], default=0), Choice([0, 1], default=1)]
        elif kind == "array":
            pattern = ArrayBuilder2D(1, 2, [0, 1, 2], default=0, symmetry=True)
        elif kind == "array_move":
            pattern = ArrayBuilder2D(2, 2, [0, 1], default=0, use_move=True, initial=[[0, 1], [1, 0]])
        elif kind == "nested":
            pattern = ([Choice([0, 1], default=0)], ArrayBuilder2D(1, 2, [0, 1], default=0, disallow_adjacent=True))
        elif kind == "segmentation":
            pattern = SegmentationBuilder2D(2, 2, min_num_blocks=2, max_block_size=3)
        else:
            raise KeyError(kind)
        initial, gen = build_neighbor_generator(pattern)
        out = [copy.deepcopy(initial)]
        for cand in gen(initial):
            out.append(copy.deepcopy(cand))
        return out, stub.used
    finally:
        for (mod, name), f in saved.items():
            setattr(mod, name, f)


KIND = os.environ.get("VERIF_KIND", "choice")


def h_reproducible(f0: int, f1: int, g0: int, g1: int) -> bool:
    """
    same seed => same initial problem and same candidate sequence, whatever Python's global random would have returned
    pre: 0 <= f0 <= 3 and 0 <= f1 <= 3 and 0 <= g0 <= 3 and 0 <= g1 <= 3
    post: _
    """
    a, _ = _candidate_sequence(KIND, [f0, f1])
    b, _ = _candidate_sequence(KIND, [g0, g1])
    return a == b


# ---- neighbour shape and purity ---------------------------------------------------------------------------------
def _grid(cells: List[int], h: int, w: int) -> List[List[int]]:
    return [cells[i * w:(i + 1) * w] for i in range(h)]


def _pattern_symmetric(g, H, W) -> bool:
    """the set of non-default cells is point-symmetric (values may differ)"""
    return all((g[y][x] != 0) == (g[H - 1 - y][W - 1 - x] != 0) for y in range(H) for x in range(W))


BH = int(os.environ.get("VERIF_BH", "2"))
BW = int(os.environ.get("VERIF_BW", "2"))
OPTLO = int(os.environ.get("VERIF_OPTLO", "0"))
OPTHI = int(os.environ.get("VERIF_OPTHI", "5"))


CHOICEKIND = os.environ.get("VERIF_CHOICE", "small")      # small: 0,1,2   big: 1000..1002 (equal but not identical objects)   str


def _choice_values():
    """(choice list, default, value for code c) - for 'big' and 'str' every value is built at run time, so equal values are
    distinct objects (an identity comparison instead of equality then misclassifies the default)"""
    if CHOICEKIND == "big":
        return [int("1000"), int("1001"), int("1002")], int("1000"), (lambda c: 1000 + c)
    if CHOICEKIND == "str":
        return ["".join(["."] * 2), "".join(["a", "1"]), "".join(["b", "2"])], "".join(["..", ""]), (lambda c: ["..", "a1", "b2"][c][:2] + "")
    return [0, 1, 2], 0, (lambda c: c)


def h_neighbors(c0: int, c1: int, c2: int, c3: int, d0: int, d1: int, opt: int) -> bool:
    """
    ArrayBuilder2D on a BH x BW board (<= 4 cells), current grid symbolic over the choice set, PRNG draws symbolic:
    every candidate differs from current only at listed cells and by choice-set values; with symmetry a point-symmetric
    clue pattern stays point-symmetric; disallow_adjacent never lets a value-setting update create adjacent non-defaults; copy_with_update
    leaves its argument untouched
    pre: 0 <= c0 <= 2 and 0 <= c1 <= 2 and 0 <= c2 <= 2 and 0 <= c3 <= 2 and 0 <= d0 < TWO32 and 0 <= d1 < TWO32 and OPTLO <= opt <= OPTHI
    post: _
    """
    H, W = BH, BW
    choice, default, val = _choice_values()
    sym = opt in (1, 3, 5)
    adj = opt in (2, 3)
    move = opt in (4, 5)
    if os.environ.get("VERIF_PRIORB"):
        # history: a builder of the same size with ANOTHER adjacency neighbourhood (diagonals) proposed candidates earlier in this process
        pb = ArrayBuilder2D(H, W, choice, default=default, disallow_adjacent=[(-1, -1), (1, 1), (-1, 1), (1, -1)])
        _with_feed([d1, d0])
        list(pb.candidates(_grid([default] * (H * W), H, W)))
    b = ArrayBuilder2D(H, W, choice, default=default, symmetry=sym, disallow_adjacent=adj, use_move=move)
    codes = [c0, c1, c2, c3][:H * W]
    cur = _grid([val(c) for c in codes], H, W)

    def nd(g, y, x):
        return g[y][x] != default

    def symmetric(g):
        return all(nd(g, y, x) == nd(g, H - 1 - y, W - 1 - x) for y in range(H) for x in range(W))

    def crowded(g):
        return any(nd(g, y, x) and ((x + 1 < W and nd(g, y, x + 1)) or (y + 1 < H and nd(g, y + 1, x))) for y in range(H) for x in range(W))
    if adj and crowded(cur):
        return True          # start from a grid that already respects the adjacency option
    if move:
        srandom.use_deterministic_prng(True, seed=5)     # 10 draws per cell: kept concrete (the real xorshift stream)
    else:
        _with_feed([d0, d1])
    snapshot = copy.deepcopy(cur)
    for upd in b.candidates(cur):
        nxt = b.copy_with_update(cur, upd)
        if cur != snapshot:
            return False
        touched = set()
        for (y, x, v) in upd:
            if not (0 <= y < H and 0 <= x < W) or v not in choice:
                return False
            touched.add((y, x))
        for y in range(H):
            for x in range(W):
                if (y, x) not in touched and nxt[y][x] != cur[y][x]:
                    return False
        final = {}
        for (y, x, v) in upd:
            final[(y, x)] = v          # applying the listed triples in order
        for (y, x), v in final.items():
            if nxt[y][x] != v:
                return False
        if sym and symmetric(cur) and not symmetric(nxt):
            return False
        if adj and any(v != default for (_, _, v) in upd) and crowded(nxt):
            return False
    return True


# ---- generate_problem soundness -----------------------------------------------------------------------------------
class _Ans:
    def __init__(self, unique, score):
        self.unique, self.score = unique, score


STEPS = int(os.environ.get("VERIF_STEPS", "1"))


def h_generate(s0: int, s1: int, s2: int, s3: int, s4: int, s5: int, acc: int) -> bool:
    """
    verdict code per solver call: 0 = unsatisfiable, 1 = satisfiable + unique, 2/3 = satisfiable, not unique, score 2/3;
    acc bit k = outcome of the k-th simulated-annealing acceptance draw.  A returned problem was passed to the solver, the
    solver said satisfiable and the uniqueness test accepted it; problems handed out earlier are never mutated.
    pre: 0 <= s0 <= 3 and 0 <= s1 <= 3 and 0 <= s2 <= 3 and 0 <= s3 <= 3 and 0 <= s4 <= 3 and 0 <= s5 <= 3 and 0 <= acc <= 7
    post: _
    """
    script = [s0, s1, s2, s3, s4, s5]
    seen = []           # (problem snapshot, problem object, verdict)
    calls = [0]

    def solver(problem):
        k = calls[0]
        calls[0] += 1
        code = script[k] if k < len(script) else 0
        seen.append((copy.deepcopy(problem), problem, code))
        if code == 0:
            return (False, _Ans(False, 0))
        return (True, _Ans(code == 1, code))

    accs = [0]

    def fake_exp(x):
        k = accs[0]
        accs[0] += 1
        return 2.0 if (acc >> (k % 3)) & 1 else 0.0
    saved = gcore.math.exp
    srandom.use_deterministic_prng(True, seed=7)

    class _M:
        exp = staticmethod(fake_exp)
    gcore_math = gcore.math
    gcore.math = _M
    try:
        res = generate_problem(solver, builder_pattern=[Choice([0, 1, 2], default=0), Choice([0, 1], default=0)],
                               uniqueness=lambda a: a.unique, score=lambda a: a.score, max_steps=STEPS)
    finally:
        gcore.math = gcore_math
    for snap, obj, code in seen:
        if obj != snap:
            return False
    if res is None:
        return all(code != 1 for (_, _, code) in seen)
    for snap, obj, code in seen:
        if obj is res or snap == res:
            if code == 1:
                return True
    return False


def _generate_run(feed: List[int]):
    """generate_problem under the deterministic PRNG with Python's global random replaced by `feed`; scripted pure callbacks
    that reach the annealing acceptance test (satisfiable, not unique, sometimes worse score)"""
    stub = _GlobalRandomStub(feed)
    saved = {}
    for name in ("randint", "choice", "random", "shuffle"):
        saved[name] = getattr(_pyrandom, name)
        setattr(_pyrandom, name, getattr(stub, name))
    calls = []

    def solver(problem):
        calls.append(copy.deepcopy(problem))
        return (True, _Ans(False, 10 - 3 * (len(calls) % 3)))
    try:
        srandom.use_deterministic_prng(True, seed=3)
        res = generate_problem(solver, builder_pattern=[Choice([0, 1, 2], default=0), Choice([0, 1], default=0)],
                               uniqueness=lambda a: a.unique, score=lambda a: a.score, max_steps=3, initial_temperature=2.0)
    finally:
        for name, f in saved.items():
            setattr(_pyrandom, name, f)
    return calls, res


def h_generate_reproducible(f0: int, f1: int, g0: int, g1: int) -> bool:
    """
    same seed => same sequence of problems handed to the solver and same result, whatever Python's global random returns
    pre: 0 <= f0 <= 3 and 0 <= f1 <= 3 and 0 <= g0 <= 3 and 0 <= g1 <= 3
    post: _
    """
    return _generate_run([f0, f1]) == _generate_run([g0, g1])
