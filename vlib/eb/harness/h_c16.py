"""CrossHair harnesses for C16: puzzle URL codecs round-trip and agree with the puzz.link / pzv format.
VERIF_CODEC selects the module; VERIF_H / VERIF_W the board (cells symbolic)."""
import os
from typing import List, Optional, Tuple

from cspuz.problem_serializer import Grid, HexInt, OneOf, Rooms, Spaces, serialize_problem
from cspuz.puzzle import util as putil

from vlib.eb import pzpr

CODEC = os.environ.get("VERIF_CODEC", "nurikabe")
H = int(os.environ.get("VERIF_H", "1"))
W = int(os.environ.get("VERIF_W", "2"))
WIDE = (0, 1, 9, 10, 15, 16, 17, 255, 256, 4095)      # values around the 1/2/3 hex digit boundaries


def _mod(name):
    import importlib
    return importlib.import_module("cspuz.puzzle." + name)


def _grid(cells: List[int]) -> List[List[int]]:
    return [cells[i * W:(i + 1) * W] for i in range(H)]


def _check_url(url: str, name: str, body_fields: int = 1) -> Optional[List[str]]:
    """'https://puzz.link/p?<name>/<W>/<H>/<body>' ; returns the fields after width/height or None"""
    try:
        prefix, fields = pzpr.split_url(url)
    except pzpr.PzprError:
        return None
    if prefix != "https://puzz.link/p?":
        return None
    if len(fields) != 3 + body_fields or fields[0] != name or fields[1] != str(W) or fields[2] != str(H):
        return None
    return fields[3:]


def _wide(i: int) -> int:
    return WIDE[i % len(WIDE)]


PRIOR = os.environ.get("VERIF_PRIOR", "")     # "h,w": a problem of that size is serialised and decoded first (history)


def _prior_roundtrip():
    if not PRIOR:
        return
    ph, pw = [int(t) for t in PRIOR.split(",")]
    m = _mod(CODEC)
    fill = {"nurikabe": 0, "sudoku": 0, "nurimisaki": -1, "slitherlink": -1, "masyu": 0}[CODEC]
    prob = [[fill] * pw for _ in range(ph)]
    prob[0][0] = 1
    url = getattr(m, "serialize_" + CODEC)(prob)
    getattr(m, "deserialize_" + CODEC)(url)


def h_grid_codec(c0: int, c1: int, c2: int, c3: int, c4: int, c5: int, w0: int) -> bool:
    """
    nurikabe / sudoku / nurimisaki / slitherlink / masyu on an H x W board (H*W <= 6): cells symbolic over the module's
    clue alphabet; cell 0 additionally ranges over WIDE (values needing 1, 2 and 3 hex digits) when w0 >= 0
    pre: LO <= c0 <= HI and LO <= c1 <= HI and LO <= c2 <= HI and LO <= c3 <= HI and LO <= c4 <= HI and LO <= c5 <= HI and -1 <= w0 <= WMAX
    post: _
    """
    cells = [c0, c1, c2, c3, c4, c5][:H * W]
    if CODEC in ("nurikabe", "sudoku", "nurimisaki") and w0 >= 0:
        cells[-1] = _wide(w0)
    problem = _grid(cells)
    _prior_roundtrip()
    m = _mod(CODEC)
    ser = getattr(m, "serialize_" + CODEC)
    de = getattr(m, "deserialize_" + CODEC)
    url = ser(problem)
    name = "slither" if CODEC == "slitherlink" else CODEC
    f = _check_url(url, name)
    if f is None:
        return False
    body = f[0]
    if de(url) != problem:
        return False
    n = H * W
    try:
        if CODEC == "nurikabe":
            got, pos = pzpr.number16(body, 0, n, empty=0, unknown=-1)
        elif CODEC == "sudoku":
            got, pos = pzpr.number16(body, 0, n, empty=0, unknown=None)
        elif CODEC == "nurimisaki":
            got, pos = pzpr.number16(body, 0, n, empty=-1, unknown=0)
        elif CODEC == "slitherlink":
            got, pos = pzpr.number4_spaces(body, 0, n, empty=-1)
        else:
            got, pos = pzpr.base3_triples(body, 0, n)
    except (pzpr.PzprError, IndexError):
        return False
    return pos == len(body) and got == cells


_ALPHA = {"nurikabe": (-1, 3), "sudoku": (0, 3), "nurimisaki": (-1, 3), "slitherlink": (-1, 4), "masyu": (0, 2)}
LO, HI = _ALPHA.get(CODEC, (0, 2))
VMAX = 9 if CODEC == "heyawake" and os.environ.get("VERIF_WIDEVALS") else (0 if CODEC == "heyawake" else -1)
WMAX = 9 if CODEC in ("nurikabe", "sudoku", "nurimisaki") else -1
LMAX = int(os.environ.get("VERIF_LMAX", "2"))     # room labels 0..LMAX

_DIRS = "^v<>"


def _yaj_cell(kind: int, d: int, n: int) -> str:
    if kind == 0:
        return ".."
    if kind == 1:
        return "??"
    return _DIRS[d] + str(n)


NYN = int(os.environ.get("VERIF_NYN", "8"))
_YN = (0, 1, 9, 10, 15, 16, 17, 20, 31, 255)


def h_yajilin(k0: int, d0: int, ni: int, k1: int, k2: int) -> bool:
    """
    yajilin on a 1 x 3 board: every clue kind the solver accepts ('..' empty, '??' clue without number, arrow + number)
    pre: 0 <= k0 <= 2 and 0 <= k1 <= 2 and 0 <= k2 <= 1 and 0 <= d0 <= 3 and 0 <= ni < NYN
    post: _
    """
    m = _mod("yajilin")
    cells = [_yaj_cell(k0, d0, _YN[ni]), _yaj_cell(k1, 3 - d0, 2), _yaj_cell(k2, 0, 0)]
    problem = [cells]
    url = m.serialize_yajilin(problem)
    prefix, fields = pzpr.split_url(url)
    if prefix != "https://puzz.link/p?" or fields[:3] != ["yajilin", "3", "1"] or len(fields) != 4:
        return False
    if m.deserialize_yajilin(url) != problem:
        return False
    try:
        got, pos = pzpr.arrow_numbers(fields[3], 0, 3)
    except (pzpr.PzprError, IndexError):
        return False
    if pos != len(fields[3]):
        return False
    want = []
    for c in cells:
        if c == "..":
            want.append(None)
        elif c == "??":
            want.append((0, None))
        else:
            want.append((1 + _DIRS.index(c[0]), int(c[1:])))
    return got == want


def _rooms_from_labels(labels: List[int]):
    bid = [labels[y * W:(y + 1) * W] for y in range(H)]
    vertical = [[1 if bid[y][x] != bid[y][x + 1] else 0 for x in range(W - 1)] for y in range(H)]
    horizontal = [[1 if bid[y][x] != bid[y + 1][x] else 0 for x in range(W)] for y in range(H - 1)]
    canon = pzpr.rooms_from_borders(H, W, vertical, horizontal)
    groups = {}
    for y in range(H):
        for x in range(W):
            groups.setdefault(bid[y][x], []).append((y, x))
    blocks = [groups[k] for k in sorted(groups)]
    return bid, blocks, canon


def h_rooms_codec(l0: int, l1: int, l2: int, l3: int, l4: int, l5: int, v0: int, v1: int) -> bool:
    """
    lits / norinori / heyawake on an H x W board: symbolic room labels per cell (rooms = label classes), heyawake clue
    values symbolic.  Own decode and the independent pzpr decoder must both give the connected components of the labeling,
    in row-major room order, with the clue of each room still attached.
    pre: 0 <= l0 <= LMAX and 0 <= l1 <= LMAX and 0 <= l2 <= LMAX and 0 <= l3 <= LMAX and 0 <= l4 <= LMAX and 0 <= l5 <= LMAX
    pre: -1 <= v0 <= VMAX and -1 <= v1 <= 1
    post: _
    """
    labels = [l0, l1, l2, l3, l4, l5][:H * W]
    if os.environ.get("VERIF_WIDEVALS"):
        labels = [0, 1, 1, 0, 2, 2][:H * W]      # fixed rooms; the clue values are the symbolic part
    bid, blocks, canon = _rooms_from_labels(labels)
    if sorted(map(sorted, blocks)) != sorted(map(sorted, canon)):
        return True       # a label class that is not connected is not a room partition: outside the codec's domain
    m = _mod(CODEC)
    if CODEC == "heyawake":
        vals = [_wide(v0) if v0 >= 0 else -1, v1, 3][:len(blocks)]
        url = m.serialize_heyawake(H, W, blocks, vals)
        f = _check_url(url, "heyawake")
        if f is None:
            return False
        back = m.deserialize_heyawake(url)
        want_vals = {tuple(sorted(b)): v for b, v in zip(blocks, vals)}
        if back is None or back[0] != H or back[1] != W or back[2][0] != canon:
            return False
        if {tuple(sorted(r)): v for r, v in zip(back[2][0], back[2][1])} != want_vals:
            return False
        try:
            vb, hb, pos = pzpr.borders(f[0], 0, H, W)
            rooms = pzpr.rooms_from_borders(H, W, vb, hb)
            nums, pos = pzpr.number16(f[0], pos, len(rooms), empty=-1, unknown=None)
        except (pzpr.PzprError, IndexError):
            return False
        return pos == len(f[0]) and rooms == canon and {tuple(sorted(r)): v for r, v in zip(rooms, nums)} == want_vals
    ser = getattr(m, "serialize_" + CODEC)
    de = getattr(m, "deserialize_" + CODEC)
    url = ser(H, W, blocks)
    f = _check_url(url, CODEC)
    if f is None:
        return False
    back = de(url)
    if back is None or tuple(back[:2]) != (H, W) or back[2] != canon:
        return False
    try:
        vb, hb, pos = pzpr.borders(f[0], 0, H, W)
    except (pzpr.PzprError, IndexError):
        return False
    return pos == len(f[0]) and pzpr.rooms_from_borders(H, W, vb, hb) == canon


def h_heyawake_rect(cut: int, vertical: bool, c0: int, c1: int) -> bool:
    """
    heyawake's one-argument rectangular form [(y0, x0, y1, x1, clue), ...]: the board cut into two rectangles (or left whole),
    clues symbolic incl. 0 and 'no clue': the URL is the one the (rooms, clues) form gives and decodes to those rooms and clues
    pre: 0 <= cut <= 3 and -1 <= c0 <= 17 and -1 <= c1 <= 2
    post: _
    """
    m = _mod("heyawake")
    if vertical:
        if cut >= W:
            return True
        rects = [(0, 0, H, W, c0)] if cut == 0 else [(0, 0, H, cut, c0), (0, cut, H, W, c1)]
    else:
        if cut >= H:
            return True
        rects = [(0, 0, H, W, c0)] if cut == 0 else [(0, 0, cut, W, c0), (cut, 0, H, W, c1)]
    rooms = [[(y, x) for y in range(y0, y1) for x in range(x0, x1)] for (y0, x0, y1, x1, _) in rects]
    clues = [r[4] for r in rects]
    url = m.serialize_heyawake(H, W, rects)
    if url != m.serialize_heyawake(H, W, rooms, clues):
        return False
    back = m.deserialize_heyawake(url)
    if back is None or back[0] != H or back[1] != W:
        return False
    return {tuple(sorted(r)): v for r, v in zip(back[2][0], back[2][1])} == {tuple(sorted(r)): v for r, v in zip(rooms, clues)}


def h_legacy_segmentation(l0: int, l1: int, l2: int, l3: int, l4: int, l5: int) -> bool:
    """
    util.encode_grid_segmentation == Rooms combinator body on the same partition; star_battle / aquarium URLs
    pre: 0 <= l0 <= LMAX and 0 <= l1 <= LMAX and 0 <= l2 <= LMAX and 0 <= l3 <= LMAX and 0 <= l4 <= LMAX and 0 <= l5 <= LMAX
    post: _
    """
    labels = [l0, l1, l2, l3, l4, l5][:H * W]
    bid, blocks, canon = _rooms_from_labels(labels)
    legacy = putil.encode_grid_segmentation(H, W, bid)
    comb = serialize_problem(Rooms(), blocks, height=H, width=W)
    if legacy != comb:
        return False
    if putil.blocks_to_block_id(H, W, blocks) != [[sorted(set(labels)).index(v) for v in row] for row in bid]:
        return False
    aq = _mod("aquarium").problem_to_url(H, W, blocks, [1] * H, [-1] * W)
    prefix, fields = pzpr.split_url(aq)
    if prefix != "https://puzz.link/p?" or fields[:3] != ["aquarium", str(W), str(H)] or len(fields) != 5 or fields[3] != legacy:
        return False
    try:
        nums, pos = pzpr.number16(fields[4], 0, H + W, empty=-1)
    except (pzpr.PzprError, IndexError):
        return False
    if pos != len(fields[4]) or nums != [-1] * W + [1] * H:
        return False
    if H == W:
        sb = _mod("star_battle").problem_to_pzv_url(H, 1, bid)
        p2, f2 = pzpr.split_url(sb)
        if p2 != "http://pzv.jp/p.html?" or f2 != ["starbattle", str(H), str(H), "1", legacy]:
            return False
    try:
        vb, hb, pos = pzpr.borders(legacy, 0, H, W)
    except (pzpr.PzprError, IndexError):
        return False
    return pos == len(legacy) and sorted(map(sorted, pzpr.rooms_from_borders(H, W, vb, hb))) == sorted(map(sorted, canon))


def h_legacy_array(c0: int, c1: int, w0: int, run: int, vary_run: bool) -> bool:
    """
    util.encode_array == Grid(OneOf(Spaces, HexInt)) on the same data (1-D and 2-D, runs of empties across the limit)
    pre: -1 <= c0 <= 2 and -1 <= c1 <= 1 and 0 <= w0 <= 9 and 0 <= run <= 24
    pre: (vary_run and c0 == 1 and w0 == 3) or ((not vary_run) and run == 2)
    post: _
    """
    row = [c0, _wide(w0)] + [-1] * run + [c1, 3]
    comb = Grid(OneOf(Spaces(-1, "g"), HexInt()), height=1, width=len(row))
    a = putil.encode_array([row], empty=-1)
    b = putil.encode_array(row, empty=-1, dim=1)
    c = serialize_problem(comb, [row], height=1, width=len(row))
    return a == c and b == c


_CU = (-1, 0, 9, 15, 16, 17, 255)


def h_compass(y: int, x: int, ui: int, l: int, d: int, r_known: bool) -> bool:
    """
    compass.to_puzz_link_url / parse_puzz_link_url on the declared H x W board with two clue cells (the second one in the
    last cell); numbers -1 (absent), one and two hex digits
    pre: 0 <= y < H and 0 <= x < W and (y, x) != (H - 1, W - 1)
    pre: 0 <= ui < 7 and -1 <= l <= 1 and -1 <= d <= 0
    post: _
    """
    u, r, y2, x2 = _CU[ui], (3 if r_known else -1), H - 1, W - 1      # (all four numbers of a compass may be unknown)
    m = _mod("compass")
    pos = [(y, x, u, l, d, r), (y2, x2, 1, -1, 2, -1)]
    url = m.to_puzz_link_url(H, W, pos)
    prefix, fields = pzpr.split_url(url)
    if prefix != "https://puzz.link/p?" or fields[:3] != ["compass", str(W), str(H)] or len(fields) != 4:
        return False
    back = m.parse_puzz_link_url(url)
    if tuple(back[:2]) != (H, W) or sorted(back[2]) != sorted(pos):
        return False
    # independent reading of the body: per clue cell four number16 fields in the order up, down, left, right
    body = fields[3]
    cells = {}
    p = 0
    i = 0
    try:
        while i < len(body):
            c = body[i]
            if ord(c) >= ord("g"):
                p += ord(c) - ord("f")
                i += 1
                continue
            nums, i = pzpr.number16(body, i, 4, empty=None, unknown=-1)
            cells[(p // W, p % W)] = tuple(nums)
            p += 1
    except (pzpr.PzprError, IndexError):
        return False
    want = {(yy, xx): (uu, dd, ll, rr) for (yy, xx, uu, ll, dd, rr) in pos}
    return cells == want
