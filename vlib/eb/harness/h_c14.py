"""CrossHair harnesses for C14 (BoolGridFrame accessors vs lattice geometry), unbounded h, w, coordinates.
The frame is built with stub arrays that return (tag, i, j) and fail on any index outside the array."""
from typing import List, Tuple

from cspuz.grid_frame import BoolGridFrame, BoolInnerGridFrame
from cspuz.array import _four_neighbor_indices


class StubOutOfRange(Exception):
    """raised by the stub arrays; deliberately not an IndexError"""


class Stub2D:
    def __init__(self, tag: str, h: int, w: int):
        self.tag, self.h, self.w = tag, h, w
        self.shape = (h, w)

    def __getitem__(self, key):
        i, j = key
        if not (0 <= i < self.h and 0 <= j < self.w):
            raise StubOutOfRange("%s[%r,%r] outside %dx%d" % (self.tag, i, j, self.h, self.w))
        return (self.tag, i, j)


def _frame(h: int, w: int) -> BoolGridFrame:
    return BoolGridFrame(None, h, w, horizontal=Stub2D("H", h + 1, w), vertical=Stub2D("V", h, w + 1))  # type: ignore


def h_getitem(h: int, w: int, y: int, x: int) -> bool:
    """
    pre: h >= 0 and w >= 0
    post: _
    """
    f = _frame(h, w)
    inside = 0 <= y <= 2 * h and 0 <= x <= 2 * w
    if inside and y % 2 == 0 and x % 2 == 1:
        want = ("H", y // 2, (x - 1) // 2)
    elif inside and y % 2 == 1 and x % 2 == 0:
        want = ("V", (y - 1) // 2, x // 2)
    else:
        want = None
    try:
        got = f[y, x]
    except IndexError:
        return want is None
    return want is not None and got == want


def h_cell_neighbors(h: int, w: int, y: int, x: int, tuple_form: bool) -> bool:
    """
    pre: h >= 0 and w >= 0
    post: _
    """
    f = _frame(h, w)
    inside = 0 <= y < h and 0 <= x < w
    try:
        got = f.cell_neighbors((y, x)) if tuple_form else f.cell_neighbors(y, x)
    except IndexError:
        return not inside
    if not inside:
        return False
    want = [("H", y, x), ("H", y + 1, x), ("V", y, x), ("V", y, x + 1)]
    return sorted(got.data) == sorted(want)


def h_vertex_neighbors(h: int, w: int, y: int, x: int, tuple_form: bool) -> bool:
    """
    pre: h >= 0 and w >= 0
    post: _
    """
    f = _frame(h, w)
    inside = 0 <= y <= h and 0 <= x <= w
    try:
        got = f.vertex_neighbors((y, x)) if tuple_form else f.vertex_neighbors(y, x)
    except IndexError:
        return not inside
    if not inside:
        return False
    want = []
    if y > 0:
        want.append(("V", y - 1, x))
    if y < h:
        want.append(("V", y, x))
    if x > 0:
        want.append(("H", y, x - 1))
    if x < w:
        want.append(("H", y, x))
    return sorted(got.data) == sorted(want)


def h_accessor_history(h: int, w: int, y: int, x: int, order: int) -> bool:
    """
    the accessors of ONE frame object called one after the other with the same coordinates (both orders, twice, plus
    all_edges / iteration in between) keep returning what the geometry says
    pre: h >= 1 and w >= 1 and 0 <= y < h and 0 <= x < w and 0 <= order <= 2
    post: _
    """
    f = _frame(h, w)
    want_cell = sorted([("H", y, x), ("H", y + 1, x), ("V", y, x), ("V", y, x + 1)])
    want_vertex = []
    if y > 0:
        want_vertex.append(("V", y - 1, x))
    want_vertex.append(("V", y, x))
    if x > 0:
        want_vertex.append(("H", y, x - 1))
    want_vertex.append(("H", y, x))
    want_vertex = sorted(want_vertex)
    for rnd in range(2):
        if order == 0:
            a = sorted(f.vertex_neighbors(y, x).data)
            b = sorted(f.cell_neighbors(y, x).data)
        elif order == 1:
            b = sorted(f.cell_neighbors(y, x).data)
            a = sorted(f.vertex_neighbors(y, x).data)
        else:
            b = sorted(f.cell_neighbors((y, x)).data)
            f.cell_neighbors(y, x).data.append(None)       # a caller that extends what it was given
            a = sorted(f.vertex_neighbors((y, x)).data)
        if a != want_vertex or b != want_cell:
            return False
        if f[2 * y, 2 * x + 1] != ("H", y, x) or f[2 * y + 1, 2 * x] != ("V", y, x):
            return False
        d = f.dual()
        if d.vertical is not f.horizontal or d.horizontal is not f.vertical:
            return False
    return True


def h_dual(h: int, w: int) -> bool:
    """
    pre: h >= 0 and w >= 0
    post: _
    """
    f = _frame(h, w)
    d = f.dual()
    if not isinstance(d, BoolInnerGridFrame):
        return False
    # the dual talks about (h+1) x (w+1) "cells" (= the lattice points); the border between cells (y,x)|(y,x+1)
    # is the original horizontal segment (y,x); between (y,x)|(y+1,x) the original vertical segment (y,x)
    if d.height != h + 1 or d.width != w + 1 or d.vertical is not f.horizontal or d.horizontal is not f.vertical:
        return False
    dd = d.dual()
    return (isinstance(dd, BoolGridFrame) and dd.height == h and dd.width == w
            and dd.horizontal is f.horizontal and dd.vertical is f.vertical)


def h_edge_joins_points(h: int, w: int, y: int, x: int) -> bool:
    """
    The edge addressed by doubled coordinates (2y, 2x+1) is among vertex_neighbors of exactly its two end points
    (y,x),(y,x+1) and among cell_neighbors of exactly the cells above and below it.
    pre: h >= 0 and w >= 1 and 0 <= y <= h and 0 <= x < w
    post: _
    """
    f = _frame(h, w)
    e = f[2 * y, 2 * x + 1]
    if e not in f.vertex_neighbors(y, x).data or e not in f.vertex_neighbors(y, x + 1).data:
        return False
    if y > 0 and e not in f.cell_neighbors(y - 1, x).data:
        return False
    if y < h and e not in f.cell_neighbors(y, x).data:
        return False
    return True


def h_vedge_joins_points(h: int, w: int, y: int, x: int) -> bool:
    """
    pre: h >= 1 and w >= 0 and 0 <= y < h and 0 <= x <= w
    post: _
    """
    f = _frame(h, w)
    e = f[2 * y + 1, 2 * x]
    if e not in f.vertex_neighbors(y, x).data or e not in f.vertex_neighbors(y + 1, x).data:
        return False
    if x > 0 and e not in f.cell_neighbors(y, x - 1).data:
        return False
    if x < w and e not in f.cell_neighbors(y, x).data:
        return False
    return True


def h_four_neighbor_indices(h: int, w: int, y: int, x: int, tuple_form: bool) -> bool:
    """
    pre: h >= 1 and w >= 1 and 0 <= y < h and 0 <= x < w
    post: _
    """
    got = _four_neighbor_indices((h, w), (y, x), None) if tuple_form else _four_neighbor_indices((h, w), y, x)
    want = []
    if y - 1 >= 0:
        want.append((y - 1, x))
    if y + 1 <= h - 1:
        want.append((y + 1, x))
    if x - 1 >= 0:
        want.append((y, x - 1))
    if x + 1 <= w - 1:
        want.append((y, x + 1))
    return sorted(got) == sorted(want)
