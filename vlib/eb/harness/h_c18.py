"""CrossHair harnesses for C18: one inductive step of SegmentationBuilder2D from an arbitrary valid partition.

Pre-states: EVERY partition of the VERIF_H x VERIF_W board into orthogonally connected blocks (generated below by code that
shares nothing with cspuz; selected by a symbolic index, in three list orders).  Symbolic: the four bound parameters (arbitrary
integers), the two seed draws split_block takes from srandom.randint, the choices initial() takes from srandom.choice.
Executed: the real candidates / split_block / _is_connected / copy_with_update / initial."""
import copy
import os
from typing import List

import cspuz.generator.segmentation as gseg
import cspuz.generator.srandom as srandom
from cspuz.generator.segmentation import SegmentationBuilder2D

try:
    from crosshair.core import deep_realize
    from crosshair.tracers import NoTracing, is_tracing
except ImportError:      # concrete replay without CrossHair
    def is_tracing():
        return False


def _native(fn, *args):
    """run fn on fully concrete arguments outside CrossHair's tracer (nothing symbolic can flow in: any symbolic argument is
    first realized, which is an exhaustive case split in CrossHair).  Used for the oracle and for the real split_block /
    _is_connected, whose inputs are concrete cell lists."""
    if not is_tracing():
        return fn(*args)
    with NoTracing():
        plain = _plain(args)
    if not plain:
        args = deep_realize(args)       # (a copy; only taken when something symbolic did flow in)
    with NoTracing():
        return fn(*args)


def _plain(x) -> bool:
    t = type(x)
    if t in (int, bool, type(None), str):
        return True
    if t in (list, tuple):
        return all(_plain(y) for y in x)
    return False


H = int(os.environ.get("VERIF_H", "2"))
W = int(os.environ.get("VERIF_W", "2"))
LO = int(os.environ.get("VERIF_LO", "0"))
HI = int(os.environ.get("VERIF_HI", "1000000"))
NCELL = H * W
REPAIRS = int(os.environ.get("VERIF_REPAIRS", "2"))
ORDMIN = int(os.environ.get("VERIF_ORDMIN", "0"))
ORDMAX = int(os.environ.get("VERIF_ORDMAX", "2"))
MODE = os.environ.get("VERIF_MODE", "all")      # which bound parameters are symbolic: all | counts | sizes | mnsmax | mn | mx | smin | smax | none (others are None)


def _mode(mn, mx, smin, smax):
    if MODE == "counts":
        return mn, mx, None, None
    if MODE == "sizes":
        return None, None, smin, smax
    if MODE == "none":
        return None, None, None, None
    if MODE == "mnsmax":                              # least number of blocks and largest block size bounded together
        return mn, None, None, smax
    if MODE in ("mn", "mx", "smin", "smax"):        # one parameter symbolic
        return (mn if MODE == "mn" else None, mx if MODE == "mx" else None, smin if MODE == "smin" else None,
                smax if MODE == "smax" else None)
    return mn, mx, smin, smax


# ---- independent ground truth ------------------------------------------------------------------------------------------
def _conn(cells) -> bool:
    cells = list(cells)
    if not cells:
        return False
    todo, seen = [cells[0]], {cells[0]}
    cs = set(cells)
    while todo:
        y, x = todo.pop()
        for q in ((y + 1, x), (y - 1, x), (y, x + 1), (y, x - 1)):
            if q in cs and q not in seen:
                seen.add(q)
                todo.append(q)
    return len(seen) == len(cs)


def _all_partitions(h, w):
    cells = [(y, x) for y in range(h) for x in range(w)]
    out = []

    def rec(i, blocks):
        if i == len(cells):
            if all(_conn(b) for b in blocks):
                out.append([list(b) for b in blocks])
            return
        for b in blocks:
            b.append(cells[i])
            rec(i + 1, blocks)
            b.pop()
        blocks.append([cells[i]])
        rec(i + 1, blocks)
        blocks.pop()
    rec(0, [])
    return out


def _all_polyominoes(h, w):
    cells = [(y, x) for y in range(h) for x in range(w)]
    out = []
    for m in range(1, 1 << len(cells)):
        sub = [c for k, c in enumerate(cells) if (m >> k) & 1]
        if len(sub) >= 2 and _conn(sub):
            out.append(sub)
    return out


PARTS = _all_partitions(H, W)
POLYS = _all_polyominoes(H, W)
NPART = len(PARTS)
NPOLY = len(POLYS)
PHI = min(HI, NPART)
QHI = min(HI, NPOLY)


def _variant(blocks, ordv):
    """the same partition in another list order (block order and cell order are not part of the value's meaning)"""
    if ordv == 0:
        return [list(b) for b in blocks]
    if ordv == 1:
        return [list(reversed(b)) for b in reversed(blocks)]
    return [b[1:] + b[:1] for b in blocks[1:] + blocks[:1]]


def _valid(blocks) -> bool:
    """a partition of the H x W board into non-empty orthogonally connected blocks"""
    seen = []
    for b in blocks:
        if not isinstance(b, list) or len(b) == 0:
            return False
        for c in b:
            if not (isinstance(c, tuple) and len(c) == 2 and 0 <= c[0] < H and 0 <= c[1] < W):
                return False
            seen.append(c)
        if not _conn(b):
            return False
    return len(seen) == NCELL and len(set(seen)) == NCELL


def _same(a, b) -> bool:
    return a == b


def _eff(v, default):
    """documented constructor convention: None (and 0) mean 'no bound'"""
    return v if v else default


def _sizes(blocks):
    return len(blocks), min(len(b) for b in blocks), max(len(b) for b in blocks)


def _within(blocks, emn, emx, esmin, esmax) -> bool:
    n, lo, hi = _native(_sizes, blocks)
    return emn <= n and n <= emx and esmin <= lo and hi <= esmax


def _concrete(v, n):
    """case split on a symbolic v >= 0: afterwards an ordinary int in [0, n) on this path (one path per value; v >= n-1 gives n-1)"""
    for k in range(n - 1):
        if v == k:
            return k
    return n - 1


class _Seeds:
    """srandom.randint stand-in for split_block: for a block of n cells the two draws are a = min(sa, n-1) and
    b = (a + 1 + min(sb, n-2)) mod n - every ordered pair of distinct indices is reachable as (sa, sb) range over [0, NCELL)^2,
    and the case split happens per block size, so paths that never split (or split small blocks) do not multiply"""

    def __init__(self, sa, sb):
        self.sa, self.sb, self.pending = sa, sb, []

    def prepare(self, n):
        a = _concrete(self.sa, n)
        b = (a + 1 + _concrete(self.sb, n - 1)) % n if n > 1 else 0
        self.pending = [a, b]

    def randint(self, lo, hi):
        if not self.pending:
            self.prepare(hi - lo + 1)
        return lo + self.pending.pop(0)


def _install(seeds, chooser=None):
    saved = (srandom.randint, srandom.choice, gseg.split_block, gseg._is_connected)
    srandom.randint = seeds.randint
    if chooser is not None:
        srandom.choice = chooser
    real_split, real_conn = gseg.split_block, gseg._is_connected

    def split_block(block):
        seeds.prepare(len(block))
        return _native(real_split, block)

    def _is_connected(block, excluded):
        return _native(real_conn, block, excluded)
    gseg.split_block, gseg._is_connected = split_block, _is_connected
    return saved


def _restore(saved):
    srandom.randint, srandom.choice, gseg.split_block, gseg._is_connected = saved


def h_step(p: int, ordv: int, mn: int, mx: int, smin: int, smax: int, sa: int, sb: int) -> bool:
    """
    from ANY valid partition inside the bounds, every proposed update leads to a valid partition inside the bounds, and neither
    proposing nor applying updates modifies the partition they start from
    pre: LO <= p < PHI and ORDMIN <= ordv <= ORDMAX and 0 <= sa < NCELL and 0 <= sb < NCELL
    post: _
    """
    mn, mx, smin, smax = _mode(mn, mx, smin, smax)
    cur = _variant(PARTS[p], ordv)
    emn, emx, esmin, esmax = _eff(mn, 1), _eff(mx, NCELL), _eff(smin, 1), _eff(smax, NCELL)
    if not _within(cur, emn, emx, esmin, esmax):
        return True
    b = SegmentationBuilder2D(H, W, min_num_blocks=mn, max_num_blocks=mx, min_block_size=smin, max_block_size=smax)
    snapshot = [list(x) for x in cur]
    saved = _install(_Seeds(sa, sb))
    try:
        if os.environ.get("VERIF_PRIORCALL"):
            # history: the same builder proposed updates for ANOTHER value, which no longer exists (look-ahead over temporaries);
            # the value under test is allocated right afterwards, typically at the address the temporary had
            del cur
            tmp = _variant(PARTS[(p + 1 + sa) % NPART], ordv)
            b.candidates(tmp)
            del tmp
            cur = [list(x) for x in snapshot]
        cands = b.candidates(cur)
        if not _native(_same, cur, snapshot):
            return False
        for upd in cands:
            nxt = _native(b.copy_with_update, cur, upd)       # concrete data only: the real method, outside the tracer
            if not _native(_same, cur, snapshot):
                return False
            if not _native(_valid, nxt) or not _within(nxt, emn, emx, esmin, esmax):
                return False
    finally:
        _restore(saved)
    return True


def h_step_unmet(p: int, ordv: int, mn: int, mx: int, smin: int, smax: int, sa: int, sb: int) -> bool:
    """
    the same from a valid partition that is NOT inside the bounds (allow_unmet_constraints_first / initial_blocks): updates
    still lead to valid partitions (blocks connected, board covered once) and modify nothing
    pre: LO <= p < PHI and ORDMIN <= ordv <= ORDMAX and 0 <= sa < NCELL and 0 <= sb < NCELL
    post: _
    """
    mn, mx, smin, smax = _mode(mn, mx, smin, smax)
    cur = _variant(PARTS[p], ordv)
    b = SegmentationBuilder2D(H, W, min_num_blocks=mn, max_num_blocks=mx, min_block_size=smin, max_block_size=smax,
                              allow_unmet_constraints_first=True)
    snapshot = [list(x) for x in cur]
    saved = _install(_Seeds(sa, sb))
    try:
        for upd in b.candidates(cur):
            nxt = _native(b.copy_with_update, cur, upd)
            if not _native(_same, cur, snapshot) or not _native(_valid, nxt):
                return False
    finally:
        _restore(saved)
    return True


def h_split(q: int, ordv: int, sa: int, sb: int) -> bool:
    """
    split_block on ANY connected block of at least two cells, any two distinct seed cells: two non-empty connected parts that
    together are exactly the block; the block itself is not modified
    pre: LO <= q < QHI and ORDMIN <= ordv <= ORDMAX and 0 <= sa < NCELL and 0 <= sb < NCELL
    post: _
    """
    block = _variant([POLYS[q]], ordv)[0]
    snapshot = list(block)
    saved = _install(_Seeds(sa, sb))
    try:
        a, bb = gseg.split_block(block)
    finally:
        _restore(saved)
    if block != snapshot:
        return False
    return _native(_split_ok, block, a, bb)


def _split_ok(block, a, bb):
    if len(a) == 0 or len(bb) == 0 or not _conn(a) or not _conn(bb):
        return False
    return sorted(a + bb) == sorted(block)


class _TooLong(Exception):
    pass


def h_initial(p: int, given: int, ordv: int, mn: int, mx: int, smin: int, smax: int, c0: int, c1: int, sa: int, sb: int) -> bool:
    """
    whatever initial() returns (after at most REPAIRS <= 2 repair steps) is a valid partition inside the bounds, and the
    initial_blocks handed to the constructor are not modified
    pre: LO <= p < PHI and 0 <= given <= 1 and ORDMIN <= ordv <= ORDMAX and 0 <= c0 < 64 and 0 <= c1 < 64 and 0 <= sa < NCELL and 0 <= sb < NCELL
    post: _
    """
    mn, mx, smin, smax = _mode(mn, mx, smin, smax)
    init = _variant(PARTS[p], ordv) if given else None
    snapshot = copy.deepcopy(init)
    emn, emx, esmin, esmax = _eff(mn, 1), _eff(mx, NCELL), _eff(smin, 1), _eff(smax, NCELL)
    b = SegmentationBuilder2D(H, W, min_num_blocks=mn, max_num_blocks=mx, min_block_size=smin, max_block_size=smax, initial_blocks=init)
    picks = [c0, c1][:REPAIRS]
    used = [0]

    def chooser(seq):
        if used[0] >= len(picks) or len(seq) == 0:
            raise _TooLong()
        k = _concrete(picks[used[0]], len(seq))     # every index is reachable: the draw is symbolic in [0, 64)
        used[0] += 1
        return seq[k]
    saved = _install(_Seeds(sa, sb), chooser)
    try:
        try:
            res = b.initial()
        except _TooLong:
            return True          # more than two repair steps, or no candidate at all (choice([]) raises): no value produced
    finally:
        _restore(saved)
    if init != snapshot:
        return False
    return _native(_valid, res) and _within(res, emn, emx, esmin, esmax)


def h_initial_unmet(p: int, given: int, ordv: int, mn: int, mx: int, smin: int, smax: int) -> bool:
    """
    with allow_unmet_constraints_first the initial value is the given partition (or the one-block board) as it is: valid, a copy
    pre: LO <= p < PHI and 0 <= given <= 1 and ORDMIN <= ordv <= ORDMAX
    post: _
    """
    mn, mx, smin, smax = _mode(mn, mx, smin, smax)
    init = _variant(PARTS[p], ordv) if given else None
    snapshot = copy.deepcopy(init)
    b = SegmentationBuilder2D(H, W, min_num_blocks=mn, max_num_blocks=mx, min_block_size=smin, max_block_size=smax,
                              allow_unmet_constraints_first=True, initial_blocks=init)
    res = b.initial()
    if init != snapshot or not _native(_valid, res):
        return False
    if given:
        return sorted(sorted(x) for x in res) == sorted(sorted(x) for x in init)
    return len(res) == 1
