"""CrossHair harnesses for C13 (indexing / slicing) - real code: cspuz.array._parse_range, _range_size,
Array2D._getitem_impl and the BoolArray2D / IntArray2D __getitem__ wrappers."""
import os
from typing import List, Optional, Tuple

from cspuz.array import BoolArray1D, BoolArray2D, IntArray1D, IntArray2D, _parse_range, _range_size
from cspuz.expr import BoolVar, IntVar


def ref_slice(length: int, start: Optional[int], stop: Optional[int], step: int) -> Tuple[int, int]:
    """(first index, count) - transcription of CPython's PySlice_Unpack + PySlice_AdjustIndices"""
    if start is None:
        start = length - 1 if step < 0 else 0
    elif start < 0:
        start += length
        if start < 0:
            start = -1 if step < 0 else 0
    elif start >= length:
        start = length - 1 if step < 0 else length
    if stop is None:
        stop = -1 if step < 0 else length
    elif stop < 0:
        stop += length
        if stop < 0:
            stop = -1 if step < 0 else 0
    elif stop >= length:
        stop = length - 1 if step < 0 else length
    if step < 0:
        if stop < start:
            return start, (start - stop - 1) // (-step) + 1
    else:
        if start < stop:
            return start, (stop - start - 1) // step + 1
    return start, 0


def _slice_ok(size: int, start: Optional[int], stop: Optional[int], step: int, give_none_step: bool = False) -> bool:
    key = slice(start, stop, None if (give_none_step and step == 1) else step)
    fixed, st, sp, stp = _parse_range(size, key)
    cnt = _range_size(st, sp, stp)
    rs, rc = ref_slice(size, start, stop, step)
    if fixed or stp != step or cnt != rc:
        return False
    if rc > 0 and st != rs:
        return False
    # every selected index is inside the axis
    if rc > 0 and not (0 <= st < size and 0 <= st + stp * (cnt - 1) < size):
        return False
    return True


def h_slice_p1(size: int, start: Optional[int], stop: Optional[int], none_step: bool) -> bool:
    """
    pre: size >= 0
    post: _
    """
    return _slice_ok(size, start, stop, 1, none_step)


def h_slice_p2(size: int, start: Optional[int], stop: Optional[int]) -> bool:
    """
    pre: size >= 0
    post: _
    """
    return _slice_ok(size, start, stop, 2)


def h_slice_p3(size: int, start: Optional[int], stop: Optional[int]) -> bool:
    """
    pre: size >= 0
    post: _
    """
    return _slice_ok(size, start, stop, 3)


def h_slice_p4(size: int, start: Optional[int], stop: Optional[int]) -> bool:
    """
    pre: size >= 0
    post: _
    """
    return _slice_ok(size, start, stop, 4)


def h_slice_m1(size: int, start: Optional[int], stop: Optional[int]) -> bool:
    """
    pre: size >= 0
    post: _
    """
    return _slice_ok(size, start, stop, -1)


def h_slice_m2(size: int, start: Optional[int], stop: Optional[int]) -> bool:
    """
    pre: size >= 0
    post: _
    """
    return _slice_ok(size, start, stop, -2)


def h_slice_m3(size: int, start: Optional[int], stop: Optional[int]) -> bool:
    """
    pre: size >= 0
    post: _
    """
    return _slice_ok(size, start, stop, -3)


def h_slice_m4(size: int, start: Optional[int], stop: Optional[int]) -> bool:
    """
    pre: size >= 0
    post: _
    """
    return _slice_ok(size, start, stop, -4)


def h_int_key(size: int, k: int) -> bool:
    """
    pre: 0 <= size <= 6 and -9 <= k <= 9
    post: _
    """
    inside = -size <= k < size
    try:
        fixed, st, sp, stp = _parse_range(size, k)
    except IndexError:
        return not inside
    if not inside:
        return False
    return fixed and st == (k if k >= 0 else k + size) and _range_size(st, sp, stp) == 1


# ---- gather on concrete small shapes, symbolic keys ------------------------------------------------
H, W = [int(t) for t in os.environ.get("VERIF_SHAPE", "2x2").split("x")]
KIND = os.environ.get("VERIF_KIND", "B")
KB = int(os.environ.get("VERIF_KB", "3"))   # bound on symbolic key fields
SB = int(os.environ.get("VERIF_SB", "2"))   # bound on symbolic steps
NONE_STEP = os.environ.get("VERIF_NONE_STEP", "1") == "1"   # whether a None step is among the symbolic values (slice x slice)


def _arr():
    if KIND == "B":
        return BoolArray2D([BoolVar(i) for i in range(H * W)], (H, W))
    return IntArray2D([IntVar(i, 0, 1) for i in range(H * W)], (H, W))


def _axis(n: int, is_int: bool, a: Optional[int], b: Optional[int], c: Optional[int]):
    """reference per-axis selection: ('int', index) / ('slice', [indices]) / 'IndexError'"""
    if is_int:
        k = 0 if a is None else a
        if not -n <= k < n:
            return "IndexError", None
        return "int", (k if k >= 0 else k + n)
    step = 1 if (c is None or c == 0) else c
    first, cnt = ref_slice(n, a, b, step)
    return "slice", [first + step * i for i in range(cnt)]


def _key(is_int: bool, a: Optional[int], b: Optional[int], c: Optional[int]):
    if is_int:
        return 0 if a is None else a
    return slice(a, b, c)


def _gather_ok(yi: bool, ya, yb, yc, xi: bool, xa, xb, xc, single: bool) -> bool:
    arr = _arr()
    ky, kx = _key(yi, ya, yb, yc), _key(xi, xa, xb, xc)
    ry = _axis(H, yi, ya, yb, yc)
    rx = ("slice", list(range(W))) if single else _axis(W, xi, xa, xb, xc)
    try:
        got = arr[ky] if single else arr[ky, kx]
    except IndexError:
        return ry[0] == "IndexError" or rx[0] == "IndexError"
    if ry[0] == "IndexError" or rx[0] == "IndexError":
        return False
    if ry[0] == "int" and rx[0] == "int":
        return (not hasattr(got, "data")) and got.id == ry[1] * W + rx[1]
    ys = [ry[1]] if ry[0] == "int" else ry[1]
    xs = [rx[1]] if rx[0] == "int" else rx[1]
    want = [y * W + x for y in ys for x in xs]
    ids = [e.id for e in got.data]
    if ids != want:
        return False
    if ry[0] == "slice" and rx[0] == "slice":
        cls = BoolArray2D if KIND == "B" else IntArray2D
        return type(got) is cls and tuple(got.shape) == (len(ys), len(xs))
    cls1 = BoolArray1D if KIND == "B" else IntArray1D
    return type(got) is cls1 and tuple(got.shape) == (len(want),)


def h_gather_int_int(y: int, x: int) -> bool:
    """
    pre: -KB - 1 <= y <= KB + 1 and -KB - 1 <= x <= KB + 1
    post: _
    """
    return _gather_ok(True, y, None, None, True, x, None, None, False)


def h_gather_int_slice(y: int, a: Optional[int], b: Optional[int], c: Optional[int]) -> bool:
    """
    pre: -KB <= y <= KB
    pre: a is None or -KB <= a <= KB
    pre: b is None or -KB <= b <= KB
    pre: c is None or (-SB <= c <= SB and c != 0)
    post: _
    """
    return _gather_ok(True, y, None, None, False, a, b, c, False)


def h_gather_slice_int(a: Optional[int], b: Optional[int], c: Optional[int], x: int) -> bool:
    """
    pre: -KB <= x <= KB
    pre: a is None or -KB <= a <= KB
    pre: b is None or -KB <= b <= KB
    pre: c is None or (-SB <= c <= SB and c != 0)
    post: _
    """
    return _gather_ok(False, a, b, c, True, x, None, None, False)


def h_gather_slice_slice(a: Optional[int], b: Optional[int], c: Optional[int], d: Optional[int], e: Optional[int], f: Optional[int]) -> bool:
    """
    pre: a is None or -KB <= a <= KB
    pre: b is None or -KB <= b <= KB
    pre: (c is None and NONE_STEP) or (c is not None and -SB <= c <= SB and c != 0)
    pre: d is None or -KB <= d <= KB
    pre: e is None or -KB <= e <= KB
    pre: (f is None and NONE_STEP) or (f is not None and -SB <= f <= SB and f != 0)
    post: _
    """
    return _gather_ok(False, a, b, c, False, d, e, f, False)


def h_gather_single_int(y: int) -> bool:
    """
    pre: -KB - 1 <= y <= KB + 1
    post: _
    """
    return _gather_ok(True, y, None, None, False, None, None, None, True)


def h_gather_single_slice(a: Optional[int], b: Optional[int], c: Optional[int]) -> bool:
    """
    pre: a is None or -KB <= a <= KB
    pre: b is None or -KB <= b <= KB
    pre: c is None or (-SB <= c <= SB and c != 0)
    post: _
    """
    return _gather_ok(False, a, b, c, False, None, None, None, True)


def h_gather_coords(y0: int, x0: int, second_valid: bool) -> bool:
    """
    pre: -KB <= y0 <= KB and -KB <= x0 <= KB
    post: _
    """
    y1, x1 = (H - 1, 0) if second_valid else (0, W)
    arr = _arr()
    bad = not (-H <= y0 < H and -W <= x0 < W and -H <= y1 < H and -W <= x1 < W)
    try:
        got = arr[[(y0, x0), (y1, x1)]]
    except IndexError:
        return bad
    if bad:
        return False
    want = [(y0 % H) * W + (x0 % W), (y1 % H) * W + (x1 % W)]
    cls1 = BoolArray1D if KIND == "B" else IntArray1D
    return type(got) is cls1 and [e.id for e in got.data] == want
