"""Engine B: run CrossHair on harness functions of the real code, one OS process per condition.

Harness convention: a function `h_<name>(...) -> bool` with a PEP-316 docstring whose last contract
line is `post: _` (the function returns True iff the property holds on that input; it calls the
real cspuz code).  Verdicts:
  "Confirmed over all paths."      -> holds for every input meeting `pre:` (discharged)
  "false when calling h(...)" / "<Exc> when calling h(...)" -> counterexample, replayed concretely
  "Not confirmed." / "Unable to meet precondition." / timeout / crash -> inconclusive
Every harness gets an automatically generated reachability twin (`post: not _`) that must be falsified.
"""
import ast
import concurrent.futures as cf
import importlib.util
import os
import re
import subprocess
import sys
import tempfile
import time

from .. import common

CROSSHAIR = os.path.join(common.VERIF, ".venv", "bin", "crosshair")
PY = os.path.join(common.VERIF, ".venv", "bin", "python")
PLUGIN = os.path.join(common.VERIF, "vlib", "eb", "plugin.py")


class Cond:
    def __init__(self, file, func, timeout, name=None, use_models=False, twin=True, path_timeout=None, key=None, env=None):
        self.file, self.func, self.timeout = file, func, timeout
        self.name = name or ("%s:%s" % (os.path.basename(file), func))
        self.use_models = use_models
        self.twin = twin
        self.path_timeout = path_timeout
        self.key = key or func
        self.env = env or {}


def _line_of(file, func):
    src = open(file).read()
    for node in ast.walk(ast.parse(src)):
        if isinstance(node, ast.FunctionDef) and node.name == func:
            return node.lineno + 1
    raise KeyError("%s not found in %s" % (func, file))


def _run_one(file, func, timeout, use_models, path_timeout, extra_env=None):
    line = _line_of(file, func)
    cmd = [CROSSHAIR, "check", "--report_all", "--per_condition_timeout", str(timeout), "--analysis_kind", "PEP316"]
    if path_timeout:
        cmd += ["--per_path_timeout", str(path_timeout)]
    cmd += ["%s:%d" % (file, line)]
    if use_models:
        cmd += ["--extra_plugin", PLUGIN]
    env = dict(os.environ)
    env["PYTHONPATH"] = common.REPO + os.pathsep + common.VERIF + os.pathsep + os.path.dirname(file) + os.pathsep + env.get("PYTHONPATH", "")
    env["PYTHONDONTWRITEBYTECODE"] = "1"
    env["PYTHONHASHSEED"] = "0"
    if extra_env:
        env.update(extra_env)
    t0 = time.time()
    try:
        p = subprocess.run(cmd, env=env, stdout=subprocess.PIPE, stderr=subprocess.PIPE, text=True,
                           timeout=timeout * 3 + 60, cwd=os.path.dirname(file))
        out, err, rc = p.stdout, p.stderr, p.returncode
    except subprocess.TimeoutExpired as e:
        out, err, rc = (e.stdout or ""), "wall timeout", -9
        if isinstance(out, bytes):
            out = out.decode("utf-8", "replace")
    dt = time.time() - t0
    return classify(out, err, rc), out.strip(), (err or "").strip()[-800:], dt


def classify(out, err, rc):
    lines = [l for l in out.splitlines() if l.strip()]
    for l in lines:
        if ": error:" in l:
            return "counterexample"
    if any("Confirmed over all paths" in l for l in lines):
        return "confirmed"
    if any("Unable to meet precondition" in l for l in lines):
        return "no-precondition"
    if any("Not confirmed" in l for l in lines):
        return "not-confirmed"
    return "crash(rc=%s)" % rc


CALL_RE = re.compile(r"when calling (.*)$")


def extract_call(out, func):
    """the text 'h_x(a=1, b="..")' from a CrossHair error line"""
    for l in out.splitlines():
        if ": error:" in l and "when calling" in l:
            m = CALL_RE.search(l)
            if not m:
                continue
            call = m.group(1).strip()
            # strip trailing ' (which returns ...)'
            depth, end = 0, None
            i = call.find("(")
            if i < 0:
                continue
            for j in range(i, len(call)):
                if call[j] == "(":
                    depth += 1
                elif call[j] == ")":
                    depth -= 1
                    if depth == 0:
                        end = j + 1
                        break
            if end:
                return call[:end], l
    return None, None


def load_module(file):
    name = "_vh_" + re.sub(r"\W", "_", os.path.abspath(file)) + "_" + re.sub(r"\W", "_", os.environ.get("VERIF_SHAPE", "") + os.environ.get("VERIF_KIND", "") + os.environ.get("VERIF_CODEC", ""))
    spec = importlib.util.spec_from_file_location(name, file)
    mod = importlib.util.module_from_spec(spec)
    sys.modules[name] = mod
    d = os.path.dirname(file)
    if d not in sys.path:
        sys.path.insert(0, d)
    spec.loader.exec_module(mod)
    return mod


def replay_call(file, call_text):
    """Execute the counterexample call concretely on the real code (no CrossHair, real builtins).
    Returns (reproduced, detail)."""
    mod = load_module(file)
    ns = dict(mod.__dict__)
    try:
        r = eval(call_text, ns)
    except Exception as e:
        fn = call_text.split("(")[0]
        allowed = _declared_raises(file, fn)
        if type(e).__name__ in allowed:
            return False, "raised declared %s" % type(e).__name__
        return True, "raised %s: %s" % (type(e).__name__, str(e)[:200])
    return (r is False or r == False), "returned %r" % (r,)   # noqa: E712


def _declared_raises(file, fn):
    src = open(file).read()
    for node in ast.walk(ast.parse(src)):
        if isinstance(node, ast.FunctionDef) and node.name == fn:
            doc = ast.get_docstring(node) or ""
            out = set()
            for l in doc.splitlines():
                l = l.strip()
                if l.startswith("raises:"):
                    out |= set(x.strip() for x in l[7:].split(","))
            return out
    return set()


def make_twin_file(file, funcs, outdir):
    """copy of the harness module in which the listed functions' `post: _` becomes `post: not _`"""
    src = open(file).read()
    tree = ast.parse(src)
    lines = src.split("\n")
    for node in ast.walk(tree):
        if isinstance(node, ast.FunctionDef) and node.name in funcs:
            ds = node.body[0]
            for ln in range(ds.lineno - 1, ds.end_lineno):
                if lines[ln].strip() == "post: _":
                    lines[ln] = lines[ln].replace("post: _", "post: not _")
    out = os.path.join(outdir, os.path.basename(file)[:-3] + "__twin.py")
    with open(out, "w") as f:
        f.write("\n".join(lines))
    return out


def run_conditions(rep, conds, jobs=None, twin_timeout=20):
    """runs all conditions (+ twins) in parallel and folds the verdicts into the report"""
    jobs = jobs or common.ncores()
    tmp = tempfile.mkdtemp(prefix="vtwin_")
    twin_files = {}
    by_file = {}
    for c in conds:
        by_file.setdefault(c.file, []).append(c)
    for file, cs in by_file.items():
        fs = [c.func for c in cs if c.twin]
        if fs:
            twin_files[file] = make_twin_file(file, fs, tmp)
    tasks = []
    with cf.ThreadPoolExecutor(max_workers=jobs) as ex:
        futs = {}
        # long conditions first
        for c in sorted(conds, key=lambda c: -c.timeout):
            futs[ex.submit(_run_one, c.file, c.func, c.timeout, c.use_models, c.path_timeout, c.env)] = (c, "main")
        for c in conds:
            if c.twin:
                futs[ex.submit(_run_one, twin_files[c.file], c.func, min(twin_timeout, c.timeout), c.use_models, c.path_timeout, c.env)] = (c, "twin")
        results = {}
        for f in cf.as_completed(futs):
            c, kind = futs[f]
            results[(c.name, kind)] = f.result()
    for c in conds:
        verdict, out, err, dt = results[(c.name, "main")]
        rep.count_query("crosshair:" + verdict, dt)
        rep.evaluations += 1
        tv = None
        if c.twin:
            tv, tout, terr, tdt = results[(c.name, "twin")]
            rep.count_query("twin:" + tv, tdt)
        rep.sample({"condition": c.name, "verdict": verdict, "cpu_budget_s": c.timeout, "wall_s": round(dt, 1), "twin": tv}, cap=40)
        if verdict == "confirmed":
            if c.twin and tv == "confirmed":
                rep.harness_error("vacuous harness %s: the reachability twin (post: not _) was confirmed" % c.name)
            elif c.twin and tv != "counterexample":
                rep.inconc("%s: confirmed, but reachability twin inconclusive (%s)" % (c.name, tv))
            else:
                rep.ok()
                rep.distinct.add(c.name)
        elif verdict == "counterexample":
            call, line = extract_call(out, c.func)
            if call is None:
                rep.harness_error("could not parse counterexample of %s: %s" % (c.name, out[-400:]))
                continue
            try:
                old_env = {k: os.environ.get(k) for k in c.env}
                os.environ.update(c.env)
                try:
                    ok, detail = replay_call(c.file, call)
                finally:
                    for k, v in old_env.items():
                        if v is None:
                            os.environ.pop(k, None)
                        else:
                            os.environ[k] = v
            except Exception as e:
                rep.harness_error("replay of %s failed: %s: %s" % (call, type(e).__name__, e))
                continue
            if not ok and c.use_models:
                # counterexample that only exists under the over-approximate builtin models: discard, but not a pass
                rep.inconc("%s: model-only counterexample %s (%s)" % (c.name, call, detail))
                continue
            rep.counterexample(c.key, "%s: %s -> %s" % (c.name, call, detail),
                               {"engine": "B", "file": os.path.relpath(c.file, common.VERIF), "call": call, "env": c.env}, ok)
        else:
            rep.inconc("%s: %s %s" % (c.name, verdict, (err or out)[-200:].replace("\n", " | ")))
    try:
        import shutil
        shutil.rmtree(tmp, ignore_errors=True)
    except Exception:
        pass


def generic_replay(payload, verbose=False):
    file = os.path.join(common.VERIF, payload["file"])
    os.environ.update(payload.get("env") or {})
    ok, detail = replay_call(file, payload["call"])
    if verbose:
        print(payload["call"], "->", detail)
    return ok
