import argparse
import importlib
import json
import os
import sys

sys.dont_write_bytecode = True
from . import common  # noqa: E402


def main():
    ap = argparse.ArgumentParser()
    ap.add_argument("prop")
    ap.add_argument("--tier", default=os.environ.get("VERIF_TIER", "quick"), choices=["quick", "thorough"])
    ap.add_argument("--replay", default=None)
    ap.add_argument("--only", default=None, help="substring filter on instance names (debugging)")
    a = ap.parse_args()
    # always the current tree
    sys.path.insert(0, common.REPO)
    import cspuz
    if not os.path.abspath(cspuz.__file__).startswith(os.path.abspath(common.REPO)):
        print("HARNESS-ERROR: cspuz imported from %s, not %s" % (cspuz.__file__, common.REPO))
        sys.exit(common.EXIT_HARNESS)
    mod = importlib.import_module("vlib.checks." + a.prop.lower())
    if a.replay:
        data = json.load(open(a.replay))
        ok = mod.replay(data["payload"], verbose=True)
        print("REPRODUCED" if ok else "NOT-REPRODUCED")
        sys.exit(1 if ok else 0)
    sys.exit(mod.run(a.tier, only=a.only))


if __name__ == "__main__":
    main()
