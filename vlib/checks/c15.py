"""C15 - serializer combinators round-trip every value they accept (Engine B: CrossHair + builtin models)."""
from .. import common
from ..eb import runner
from ._codec_common import C, HF, H16, validate_models

FILES = ["cspuz/problem_serializer.py"]


def conditions(tier):
    q = tier == "quick"
    T = 100 if q else 900
    cs = []
    # value side: leaves
    cs += [C(HF, "HexInt", "h_value_int", t=T), C(HF, "OneOf_SpacesHex", "h_value_int", t=T), C(HF, "IntSpaces", "h_value_int", t=T),
           C(HF, "OneOf_DictSpacesHex", "h_value_int", t=T), C(HF, "Dict", "h_value_int", t=T),
           C(HF, "OneOf_HexDictUpper", "h_value_int", t=T),
           C(HF, "DecInt", "h_value_dec", t=T), C(HF, "Spaces_g", "h_value_run", t=T), C(HF, "Spaces_a", "h_value_run", t=T),
           C(HF, "Spaces_z", "h_value_run", t=T), C(HF, "Spaces_0", "h_value_run", t=T), C(HF, "Spaces_5", "h_value_run", t=T),
           C(HF, "Spaces_9", "h_value_run", t=T), C(HF, "OneOf_SpacesHex", "h_value_run", t=T), C(HF, "IntSpaces", "h_value_run", t=T),
           C(HF, "MultiDigit33", "h_value_digits", t=T), C(HF, "MultiDigit25", "h_value_digits", t=T)]
    # value side: compositions
    for w in ((2,) if q else (1, 2, 3)):
        cs += [C(HF, "Seq_Hex", "h_value_seq", 1, w, t=2 * T), C(HF, "Seq_SpacesHex", "h_value_seq", 1, w, t=2 * T),
               C(HF, "Seq_IntSpaces", "h_value_seq", 1, w, t=2 * T), C(HF, "Tupl_SeqSeq", "h_value_seq", 1, w, t=2 * T)]
    cs += [C(HF, "Seq_MultiDigit33", "h_value_seq", 1, 2, t=T), C(HF, "Tupl_HexDec", "h_value_seq", 1, 2, t=2 * T),
           C(HF, "Grid_fixed", "h_value_seq", 1, 2, t=2 * T)]
    shapes = [(1, 2), (2, 1), (1, 3)] if q else [(1, 1), (1, 2), (2, 1), (1, 3), (3, 1), (2, 2), (2, 3)]
    for (h, w) in shapes:
        cs.append(C(HF, "Grid_SpacesHex", "h_value_grid", h, w, t=3 * T if h * w > 3 else T))
    # text side (values in the decoder's image): leaves and compositions
    Lq = 3
    for codec in ["FixStr", "Dict", "Spaces_g", "DecInt", "HexInt", "IntSpaces", "MultiDigit33", "MultiDigit25", "OneOf_SpacesHex",
                  "OneOf_DictSpacesHex"]:
        cs.append(C(HF, codec, "h_text", l=Lq if q else 4, t=T if q else 3 * T))
    cs += [C(HF, "Seq_Hex", "h_text", 1, 2, l=4, t=2 * T), C(HF, "Seq_SpacesHex", "h_text", 1, 2, l=3 if q else 4, t=2 * T),
           C(HF, "Tupl_HexDec", "h_text", l=3 if q else 4, t=2 * T), C(HF, "Grid_SpacesHex", "h_text", 1, 2, l=3 if q else 4, t=2 * T), C(HF, "Grid_SpacesHex", "h_text", 2, 2, l=2 if q else 3, t=2 * T),
           C(HF, "Seq_MultiDigit33", "h_text", 1, 2, l=2, t=T)]
    # rooms: text side on every small board shape incl. single row / column, orderings
    rshapes = [(1, 2), (2, 1), (1, 3), (3, 1), (2, 2)] if q else [(1, 1), (1, 2), (2, 1), (1, 3), (3, 1), (2, 2), (2, 3), (3, 2), (1, 4)]
    for (h, w) in rshapes:
        cs.append(C(HF, "Rooms", "h_text", h, w, l=2 if q else 3, t=T, key="h_text:Rooms:" + ("1xN" if min(h, w) == 1 else "HxW")))
        cs.append(C(HF, "ValuedRooms", "h_text", h, w, l=(2 if h * w >= 3 else 3) if q else 4, t=2 * T, key="h_text:ValuedRooms:" + ("1xN" if min(h, w) == 1 else "HxW")))
    # value side for room partitions: symbolic room label per cell, decoded rooms compared with independently computed components
    for (h, w) in ([(2, 3), (3, 2)] if q else [(2, 3), (3, 2), (1, 3), (2, 2)]):
        cs.append(C(H16, "lits", "h_rooms_codec", h, w, t=4 * T, VERIF_LMAX=1, key="rooms-value:" + ("1xN" if min(h, w) == 1 else "HxW")))
    # a room codec that does not start at offset 0 of the text; a grid codec object used for another board size before
    for (h, w) in ([(1, 2), (2, 2)] if q else [(1, 2), (2, 1), (2, 2), (1, 3)]):
        cs.append(C(HF, "Tupl_Hex_VRooms", "h_text", h, w, l=4, t=3 * T))
        cs.append(C(HF, "Tupl_Hex_Rooms", "h_text", h, w, l=3, t=2 * T))
    cs.append(C(HF, "Grid_SpacesHex", "h_text", 1, 2, l=3, t=2 * T, VERIF_PRIOR="2,2,1i", key="h_text-after-other-size:Grid_SpacesHex"))
    cs.append(C(HF, "Grid_SpacesHex", "h_value_grid", 1, 3, t=T, VERIF_PRIOR="2,2,1i", key="h_value-after-other-size:Grid_SpacesHex"))
    if q:     # a board wider than tall for the per-room values (row-major order of rooms depends on the width)
        cs.append(C(HF, "ValuedRooms_hex", "h_rooms_order", 2, 3, l=2, t=5 * T, VERIF_NPERM=4))
    for (h, w) in ([(2, 2)] if q else [(2, 2), (2, 3), (1, 3)]):
        cs.append(C(HF, "Rooms", "h_rooms_order", h, w, l=2, t=4 * T, VERIF_NPERM=4 if q else 8))
        cs.append(C(HF, "ValuedRooms_hex", "h_rooms_order", h, w, l=2, t=4 * T, VERIF_NPERM=4 if q else 8))
        cs.append(C(HF, "ValuedRooms", "h_rooms_order", h, w, l=2, t=4 * T, VERIF_NPERM=4 if q else 8))
    return cs


def run(tier, only=None):
    rep = common.Report("C15", tier, "other", FILES)
    validate_models(rep)
    cs = conditions(tier)
    if only:
        cs = [c for c in cs if only in c.name]
    runner.run_conditions(rep, cs)
    rep.functions = ["every Combinator subclass of cspuz.problem_serializer (FixStr Dict Spaces DecInt HexInt IntSpaces MultiDigit OneOf Tupl "
                     "Seq Grid Rooms ValuedRooms)", "serialize_problem", "deserialize_problem", "_to_base36/_from_base36/_to_base16/_from_base16"]
    rep.bounds = {"value side": "HexInt/OneOf/IntSpaces items -3..4100 followed by 0..3 spaces and one more item; DecInt -2..300; space runs 0..40 "
                  "(across the one-character limit) for smallest = g / a / z / 0 / 5 / 9; MultiDigit groups of 1..4 digits; Seq/Tupl/Grid on 1xW (W<=3) and "
                  "boards up to %s" % ("1x3" if tier == "quick" else "2x3"),
                  "text side": "EVERY Unicode text of length <= %d per leaf / composition (values in the decoder's image must re-encode and decode "
                  "to themselves, consuming the text entirely)" % (3 if tier == "quick" else 4),
                  "rooms": "every body text of length <= 2-4 on boards incl. 1xN / Nx1; symbolic rotation/reversal of the room list and of each "
                  "room's cells; values (0,16,256) or (1,15,255)"}
    rep.outside = ["longer texts / larger boards", "Seq over DecInt (decimal numbers are not self-delimiting; read as outside the proviso "
                   "'alternatives distinguishable by their leading character')", "values whose run-length etc. exceed the listed ranges"]
    rep.assumptions += ["CrossHair 0.0.110 'Confirmed over all paths' is sound"]
    return rep.finish("CrossHair executes the real combinators symbolically (hex/int replaced by validated pure-Python models): value-side "
                      "harnesses take symbolic items, text-side harnesses take every Unicode text up to the length bound; the postcondition is the "
                      "round trip incl. exact consumption. Encoder table lookups make CrossHair enumerate values path-by-path there (stated).")


replay = runner.generic_replay
