"""helpers shared by the Engine-A graph checks"""
import random

from cspuz import graph as G

from .. import common
from ..ea import query, spec

STD_ASSUMPTIONS = [
    "reference translator vlib/ea/ref.py gives the ordinary meaning of the DSL operators",
    "spec library vlib/ea/spec.py (closure-matrix connectivity, degree counts) is the meaning of the graph notions",
    "z3 5.1.0 is sound (completeness queries are exists-forall, decided by its quantifier engine)",
    "native operator operand layouts as documented in cspuz/graph.py",
]


def mk_graph(n, edges, history=None):
    """history=k: the Graph object is first built with k edges and *used* in rank-based constraints on a throw-away
    Solver (and asked for its line graph), then extended with the remaining edges: the object the real call sees has a past"""
    g = G.Graph(n)
    if history is None:
        for u, v in edges:
            g.add_edge(u, v)
        return g
    from cspuz import Solver as _S
    for u, v in edges[:history]:
        g.add_edge(u, v)
    t = _S()
    G.active_vertices_connected(t, t.bool_array(n), g, use_graph_primitive=False)
    G.active_edges_acyclic(t, t.bool_array(len(g)), g)
    g.line_graph()
    for u, v in edges[history:]:
        g.add_edge(u, v)
    return g


def orient(edges, how):
    """the same undirected (multi)graph with its edges stored in another direction: 'rev' all (v,u), 'alt' every second one"""
    if how == "rev":
        return [(v, u) for (u, v) in edges]
    if how == "alt":
        return [(v, u) if k % 2 else (u, v) for k, (u, v) in enumerate(edges)]
    return list(edges)


def bool_items(s, n, mode):
    if mode == "vars":
        return [s.bool_var() for _ in range(n)]
    if mode == "neg":
        return [~s.bool_var() for _ in range(n)]
    if mode == "and":
        return [s.bool_var() & s.bool_var() for _ in range(n)]
    if mode in ("c0T", "c0F"):          # one Python constant (first item), the rest variables
        return [mode == "c0T"] + [s.bool_var() for _ in range(n - 1)]
    if mode.startswith("const:"):       # every item a Python constant: bit k of the number = item k
        bits = int(mode[6:])
        return [bool(bits >> k & 1) for k in range(n)]
    if mode.startswith("mixed"):      # "mixed", "mixed1".."mixed3": the pattern variable / True / expression / False, rotated
        off = int(mode[5:] or 0)
        out = []
        for i in range(n):
            k = (i + off) % 4
            if k == 0:
                out.append(s.bool_var())
            elif k == 1:
                out.append(True)
            elif k == 2:
                out.append(s.bool_var() | (s.int_var(0, 2) >= 1))
            else:
                out.append(False)
        return out
    raise ValueError(mode)


def generic_replay(payload, verbose=False):
    ok, detail = query.replay(payload["module"], payload["desc"], payload["kind"], payload.get("witness"), verbose)
    if verbose:
        print(detail)
    return ok


def snake_cells(h, w):
    """a long chain of diagonally touching cells that starts in the corner and then zigzags through the interior rows
    (never adjacent, never segmenting): the pattern that needs the largest ranks in rank-based encodings"""
    cells = [(0, 0)]
    x = 1
    while x <= w - 2 and h >= 4:
        cells.append((1 if x % 2 == 1 else 2, x))
        x += 1
    return cells


def spiral_path(h, w):
    """an induced path (no chords) that winds through the grid: connected with a large radius"""
    cells, y, x, dy, dx = [], 0, 0, 0, 1
    seen = set()
    while 0 <= y < h and 0 <= x < w:
        cells.append((y, x))
        seen.add((y, x))
        ny, nx = y + dy, x + dx
        # turn when the cell ahead, or a cell next to it other than the current one, is taken / outside
        def blocked(cy, cx):
            if not (0 <= cy < h and 0 <= cx < w) or (cy, cx) in seen:
                return True
            for (ay, ax) in ((cy - 1, cx), (cy + 1, cx), (cy, cx - 1), (cy, cx + 1)):
                if (ay, ax) in seen and (ay, ax) != (y, x):
                    return True
            return False
        if blocked(ny, nx):
            dy, dx = dx, -dy
            ny, nx = y + dy, x + dx
            if blocked(ny, nx):
                break
        y, x = ny, nx
    return cells


def run_engine_a(prop, mod, files, tier, only, instances, key_of, label, functions, bounds, outside, explanation,
                 tmo_quick=60, tmo_thorough=240, extra_assumptions=(), spot=None):
    rep = common.Report(prop, tier, "translation_validation", files)
    rng = random.Random(common.seed())
    rep.extra["spec_selftest_cases"] = spec.self_test(rng, 40)
    descs = instances(tier, rng)
    if only:
        descs = [d for d in descs if only in d["name"]]
    tmo = tmo_quick if tier == "quick" else tmo_thorough
    results = query.run_pool(mod, descs, tmo)
    query.absorb(rep, mod, results, key_of, label)
    if spot is not None:
        sd = spot(tier, rng)
        if only:
            sd = [d for d in sd if only in d["name"]]
        query.run_spot(rep, mod, sd, key_of, label, tmo)
    rep.functions = functions
    rep.bounds = dict(bounds)
    rep.bounds["per-query timeout_s"] = tmo
    rep.bounds["instances"] = len(descs)
    rep.outside = outside
    rep.assumptions = STD_ASSUMPTIONS + list(extra_assumptions)
    return rep.finish(explanation)


EXPL = ("Per instance the real cspuz function is run on a recording Solver; the emitted Expr trees are translated by the "
        "independent reference translator and z3 decides, over all values of the caller's variables and of every hidden "
        "auxiliary variable at once, soundness F&~R unsat and completeness R & forall aux. ~F unsat (exists-forall); both "
        "sides are checked to be inhabited; sat answers are replayed through Solver.find_answer on the real code.")
