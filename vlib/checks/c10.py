"""C10 - crossable loop/path constraint admits exactly single self-crossing trails."""
import z3

from cspuz import Solver, graph as G, BoolGridFrame
from cspuz.array import BoolArray2D

from ..ea import query, ref, spec
from . import _ea_common as E

MOD = "vlib.checks.c10"
FILES = ["cspuz/graph.py", "cspuz/grid_frame.py", "cspuz/array.py", "cspuz/constraints.py", "cspuz/expr.py"]


def geometry(h, w):
    """segments as (kind, y, x, p, q) with lattice points p,q; plus per-point incident lists and the
    pairs of segments sharing a point with a 'collinear' flag"""
    P = lambda y, x: y * (w + 1) + x  # noqa: E731
    segs = []
    for y in range(h + 1):
        for x in range(w):
            segs.append(("h", y, x, P(y, x), P(y, x + 1)))
    for y in range(h):
        for x in range(w + 1):
            segs.append(("v", y, x, P(y, x), P(y + 1, x)))
    npts = (h + 1) * (w + 1)
    inc = [[] for _ in range(npts)]
    for i, (k, y, x, p, q) in enumerate(segs):
        inc[p].append(i)
        inc[q].append(i)
    pairs = []   # (seg i, seg j, point, collinear)
    for p in range(npts):
        for a in range(len(inc[p])):
            for b in range(a):
                i, j = inc[p][a], inc[p][b]
                pairs.append((i, j, p, segs[i][0] == segs[j][0]))
    return segs, npts, inc, pairs


def build(d):
    h, w = d["h"], d["w"]
    if d.get("prior"):
        # history: the constraint was used on the transposed frame earlier in the same process (throw-away Solver)
        t = Solver()
        G.active_edges_connected_crossable(t, BoolGridFrame(t, w, h), single_cycle=d["cycle"], use_graph_primitive=d["primitive"])
    s = Solver()
    frame = BoolGridFrame(s, h, w)
    if d["api"] == "cycle_fn":
        passed, cross = G.active_edges_single_cycle_crossable(s, frame, use_graph_primitive=d["primitive"])
        cyc = True
    else:
        passed, cross = G.active_edges_connected_crossable(s, frame, single_cycle=d["cycle"], use_graph_primitive=d["primitive"])
        cyc = d["cycle"]
    for arr in (passed, cross):
        if not isinstance(arr, BoolArray2D) or arr.shape != (h + 1, w + 1):
            raise AssertionError("returned arrays must have the lattice's shape")
    if bool(d["primitive"]) != query.has_native(s.constraints):
        raise AssertionError("use_graph_primitive=%s but native operator present=%s" % (d["primitive"], query.has_native(s.constraints)))
    segs, npts, inc, pairs = geometry(h, w)
    flags = [frame.horizontal[y, x] if k == "h" else frame.vertical[y, x] for (k, y, x, p, q) in segs]
    pl = [passed[y, x] for y in range(h + 1) for x in range(w + 1)]
    cl = [cross[y, x] for y in range(h + 1) for x in range(w + 1)]
    xv = ref.collect_vars(flags) + ref.collect_vars(pl) + ref.collect_vars(cl)

    def spec_z3(env):
        on = [ref.rb(f, env) for f in flags]
        deg = [spec.count(on[i] for i in inc[p]) for p in range(npts)]
        cs = []
        for p in range(npts):
            allowed = [deg[p] == 0, deg[p] == 2, deg[p] == 4] + ([] if cyc else [deg[p] == 1])
            cs.append(z3.Or(allowed))
            y, x = divmod(p, w + 1)
            if y in (0, h) or x in (0, w):
                cs.append(deg[p] != 4)
            cs.append(ref.rb(pl[p], env) == (deg[p] > 0))
            cs.append(ref.rb(cl[p], env) == (deg[p] == 4))
        edges = [(i, j) for (i, j, p, col) in pairs]
        ok = [z3.BoolVal(True) if col else deg[p] != 4 for (i, j, p, col) in pairs]
        C = spec.closure(len(segs), edges, on, ok)
        for i in range(len(segs)):
            for j in range(i + 1, len(segs)):
                cs.append(z3.Implies(z3.And(on[i], on[j]), C[i][j]))
        return spec.And(cs)

    def spec_py(assign):
        on = [bool(ref.pyeval(f, assign)) for f in flags]
        deg = [sum(1 for i in inc[p] if on[i]) for p in range(npts)]
        for p in range(npts):
            if deg[p] not in ((0, 2, 4) if cyc else (0, 1, 2, 4)):
                return False
            y, x = divmod(p, w + 1)
            if (y in (0, h) or x in (0, w)) and deg[p] == 4:
                return False
            if bool(ref.pyeval(pl[p], assign)) != (deg[p] > 0) or bool(ref.pyeval(cl[p], assign)) != (deg[p] == 4):
                return False
        edges = [(i, j) for (i, j, p, col) in pairs]
        ok = [True if col else deg[p] != 4 for (i, j, p, col) in pairs]
        C = spec.closure_py(len(segs), edges, on, ok)
        return all(C[i][j] for i in range(len(segs)) for j in range(i + 1, len(segs)) if on[i] and on[j])
    return query.Built(s, xv, spec_z3, spec_py)


def instances(tier, rng):
    out = []
    frames = [(0, 0), (1, 1), (1, 2), (2, 1), (2, 2), (0, 2), (1, 3), (2, 3), (3, 2), (0, 3), (3, 0), (0, 5)]
    if tier == "thorough":
        frames += [(3, 3), (2, 4), (4, 2), (1, 5)]
    for (h, w) in frames:
        for cyc in (False, True):
            for prim in (False, True):
                out.append(dict(name="frame%dx%d/cyc%d/pr%d" % (h, w, cyc, prim), h=h, w=w, cycle=cyc, primitive=prim, api="connected"))
        out.append(dict(name="frame%dx%d/cycle_fn/pr0" % (h, w), h=h, w=w, cycle=True, primitive=False, api="cycle_fn"))
        if h != w and h * w <= 2:
            for cyc in (False, True):
                out.append(dict(name="frame%dx%d/cyc%d/pr0/after-transposed" % (h, w, cyc), h=h, w=w, cycle=cyc, primitive=False, api="connected",
                                prior=True))
    return out


def _pattern(h, w, on_set):
    """x assignment (segments in geometry order, then is_passed, then is_cross) for a set of active segments"""
    segs, npts, inc, pairs = geometry(h, w)
    on = [((k, y, x) in on_set) for (k, y, x, p, q) in segs]
    deg = [sum(1 for i in inc[p] if on[i]) for p in range(npts)]
    return on + [d > 0 for d in deg] + [d == 4 for d in deg]


def _cells_boundary(cells):
    """segments on the boundary of a set of cells (XOR of the unit loops): every lattice point gets an even degree"""
    out = set()
    for (y, x) in cells:
        for sg in (("h", y, x), ("h", y + 1, x), ("v", y, x), ("v", y, x + 1)):
            out ^= {sg}
    return out


def spot(tier, rng):
    """frames whose 3-nodes-per-point graph has more than 128 nodes, segments and both returned arrays PINNED, all rank / root
    auxiliaries symbolic: several strands, strands touching the last rows and columns, crossings in the last interior row"""
    out = []
    for (h, w) in ([(4, 5), (5, 4), (2, 9)] if tier == "quick" else [(4, 5), (5, 4), (2, 9), (9, 2), (5, 5), (3, 7), (6, 6)]):
        pats = []
        allc = [(y, x) for y in range(h) for x in range(w)]
        pats.append(_pattern(h, w, set()))
        pats.append(_pattern(h, w, _cells_boundary(allc)))                                   # perimeter
        pats.append(_pattern(h, w, _cells_boundary([(0, 0), (h - 1, w - 1)])))                 # two unit loops, opposite corners
        pats.append(_pattern(h, w, _cells_boundary([(0, 0), (0, w - 1)])))
        pats.append(_pattern(h, w, _cells_boundary([(h - 1, 0), (h - 1, w - 1)])))
        pats.append(_pattern(h, w, _cells_boundary([(h - 2, w - 2), (h - 1, w - 1)])))         # figure eight, crossing in the last interior row
        pats.append(_pattern(h, w, _cells_boundary([(h - 2, 0), (h - 1, 1)])))
        pats.append(_pattern(h, w, _cells_boundary([(0, 0), (1, 1)]) | _cells_boundary([(h - 1, w - 1)])))
        # open trails: a vertical run through a horizontal run, crossing in the last interior row / column
        if h >= 2 and w >= 2:
            pats.append(_pattern(h, w, {("v", y, 1) for y in range(h)} | {("h", h - 1, x) for x in range(w)}))
            pats.append(_pattern(h, w, {("v", y, w - 1) for y in range(h)} | {("h", 1, x) for x in range(w)}))
            pats.append(_pattern(h, w, {("v", y, 1) for y in range(h)} | {("h", h - 1, x) for x in range(w)} | {("h", 0, w - 1)}))
        for _ in range(6 if tier == "quick" else 14):
            cells = [c for c in allc if rng.random() < rng.choice([0.15, 0.3, 0.5])]
            pats.append(_pattern(h, w, _cells_boundary(cells)))
        for cyc in (False, True):
            out.append(dict(name="spot-frame%dx%d/cyc%d/pr0" % (h, w, cyc), h=h, w=w, cycle=cyc, primitive=False, api="connected", patterns=pats))
        out.append(dict(name="spot-frame%dx%d/cyc1/pr1" % (h, w), h=h, w=w, cycle=True, primitive=True, api="connected", patterns=pats))
    return out


def key_of(d, kind):
    return "cycle=%d,primitive=%d,%s" % (d["cycle"], d["primitive"], kind)


def run(tier, only=None):
    return E.run_engine_a(
        "C10", MOD, FILES, tier, only, instances, key_of, "active_edges_connected_crossable",
        ["cspuz.graph.active_edges_connected_crossable", "cspuz.graph.active_edges_single_cycle_crossable",
         "cspuz.grid_frame.BoolGridFrame.vertex_neighbors", "cspuz.graph.active_vertices_connected (3-nodes-per-point graph)"],
        {"frames": "0x0, 0x2, 1x1, 1x2, 2x1, 2x2, 1x3" + ("" if tier == "quick" else ", 2x3, 3x2, 3x3, 2x4, 1x5"),
         "x": "all frame segments + both returned arrays are free",
         "spec": "degree set, interior-only 4-way points, is_passed/is_cross definitions, one strand = connectivity of the "
                 "segment graph (segments adjacent iff they share a point that is not 4-way, or are collinear at it)"},
        ["larger frames (beyond 3x3 / 2x4 only the pinned spot patterns on 4x5 ... 6x6 frames are decided: a sample of patterns, all "
         "auxiliaries symbolic)"], E.EXPL, tmo_quick=120, tmo_thorough=600, spot=spot)


replay = E.generic_replay
