"""C06 - active_edges_single_cycle / single_path admit exactly one simple cycle / path."""
import z3

from cspuz import Solver, graph as G, BoolGridFrame
from cspuz.array import BoolArray1D, BoolArray2D

from ..ea import graphs, query, ref, spec
from . import _ea_common as E

MOD = "vlib.checks.c06"
FILES = ["cspuz/graph.py", "cspuz/grid_frame.py", "cspuz/array.py", "cspuz/constraints.py", "cspuz/expr.py"]


def frame_geometry(h, w, frame):
    """edge list over lattice points, written from the geometry: horizontal[y,x] joins (y,x)-(y,x+1),
    vertical[y,x] joins (y,x)-(y+1,x); point id = y*(w+1)+x.  Returns (n, edges, flags)"""
    n = (h + 1) * (w + 1)
    edges, flags = [], []
    for y in range(h + 1):
        for x in range(w):
            edges.append((y * (w + 1) + x, y * (w + 1) + x + 1))
            flags.append(frame.horizontal[y, x])
    for y in range(h):
        for x in range(w + 1):
            edges.append((y * (w + 1) + x, (y + 1) * (w + 1) + x))
            flags.append(frame.vertical[y, x])
    return n, edges, flags


def build(d):
    s = Solver()
    fn = G.active_edges_single_cycle if d["fn"] == "cycle" else G.active_edges_single_path
    if d["form"] == "frame":
        h, w = d["h"], d["w"]
        if d.get("prior"):
            t = Solver()      # history: the transposed frame went through the same constraint earlier in this process
            fn(t, BoolGridFrame(t, w, h), use_graph_primitive=d["primitive"])
        frame = BoolGridFrame(s, h, w)
        n, edges, flags = frame_geometry(h, w, frame)
        passed = fn(s, frame, use_graph_primitive=d["primitive"])
        if not isinstance(passed, BoolArray2D) or passed.shape != (h + 1, w + 1):
            raise AssertionError("result is not a BoolArray2D of the lattice's shape: %r" % (getattr(passed, "shape", None),))
        pl = [passed[y, x] for y in range(h + 1) for x in range(w + 1)]
    else:
        n, edges = d["n"], [tuple(e) for e in d["edges"]]
        flags = E.bool_items(s, len(edges), d["mode"])
        g = E.mk_graph(n, edges, d.get("history"))
        passed = fn(s, BoolArray1D(flags) if d["form"] == "array1d" else flags, g, use_graph_primitive=d["primitive"])
        if not isinstance(passed, BoolArray1D) or len(passed) != n:
            raise AssertionError("result is not a BoolArray1D with one entry per vertex")
        pl = list(passed)
    xv = ref.collect_vars(flags) + ref.collect_vars(pl)

    def spec_z3(env):
        on = [ref.rb(x, env) for x in flags]
        deg = spec.degrees(n, edges, on)
        shape = spec.single_cycle_or_empty(n, edges, on) if d["fn"] == "cycle" else spec.single_path_or_empty(n, edges, on)
        return z3.And(shape, spec.And(ref.rb(pl[v], env) == (deg[v] > 0) for v in range(n)))

    def spec_py(assign):
        on = [bool(ref.pyeval(x, assign)) for x in flags]
        deg = spec.degrees_py(n, edges, on)
        shape = spec.single_cycle_or_empty_py(n, edges, on) if d["fn"] == "cycle" else spec.single_path_or_empty_py(n, edges, on)
        return shape and all(bool(ref.pyeval(pl[v], assign)) == (deg[v] > 0) for v in range(n))
    return query.Built(s, xv, spec_z3, spec_py)


def instances(tier, rng):
    out = []
    gl = [(nm, n, es) for nm, (n, es) in graphs.multigraphs_small().items()]
    for n in range(2, (4 if tier == "quick" else 5) + 1):
        for i, es in enumerate(graphs.all_graphs(n)):
            if es and (n < 5 or len(es) <= 8):
                gl.append(("g%d_%d" % (n, i), n, es))
    for k in range(6 if tier == "quick" else 40):
        n = rng.randint(3, 5)
        gl.append(("rndmulti%d" % k, n, graphs.random_multigraph(rng, n, rng.randint(3, 6 if tier == "quick" else 8))))
    for nm, n, es in gl:
        for prim in (False, True):
            out.append(dict(name="%s/cycle/pr%d" % (nm, prim), fn="cycle", form="list", n=n, edges=es, mode="vars", primitive=prim))
        out.append(dict(name="%s/path/pr1" % nm, fn="path", form="list", n=n, edges=es, mode="vars", primitive=True))
        for how in ("rev", "alt"):
            for prim in (False, True):
                out.append(dict(name="%s/cycle/pr%d/%s" % (nm, prim, how), fn="cycle", form="list", n=n, edges=E.orient(es, how), mode="vars",
                                primitive=prim))
        if len(es) >= 2:
            for prim in (False, True):
                out.append(dict(name="%s/cycle/pr%d/hist" % (nm, prim), fn="cycle", form="list", n=n, edges=es, mode="vars", primitive=prim,
                                history=len(es) // 2))
        if len(es) <= 5:
            out.append(dict(name="%s/cycle/and" % nm, fn="cycle", form="array1d", n=n, edges=es, mode="and", primitive=False))
            out.append(dict(name="%s/path/array1d" % nm, fn="path", form="array1d", n=n, edges=es, mode="vars", primitive=True))
        if 1 <= len(es) <= 6 and n <= 5:
            # Python constants among the edge flags (a constant-True edge is an edge of the cycle / path)
            for off in range(4 if len(es) >= 3 else 2):
                for prim in (False, True):
                    out.append(dict(name="%s/cycle/pr%d/mixed%d" % (nm, prim, off), fn="cycle", form="list", n=n, edges=es, mode="mixed%d" % off,
                                    primitive=prim))
                out.append(dict(name="%s/path/pr1/mixed%d" % (nm, off), fn="path", form="list", n=n, edges=es, mode="mixed%d" % off, primitive=True))
    frames = [(1, 1), (1, 2), (2, 1), (2, 2), (1, 3), (0, 1), (1, 0), (0, 0), (0, 2), (2, 3), (3, 2)]
    if tier == "thorough":
        frames += [(3, 3), (1, 5), (5, 1), (2, 4), (0, 3)]
    for (h, w) in frames:
        for prim in (False, True):
            out.append(dict(name="frame%dx%d/cycle/pr%d" % (h, w, prim), fn="cycle", form="frame", h=h, w=w, primitive=prim))
        out.append(dict(name="frame%dx%d/path/pr1" % (h, w), fn="path", form="frame", h=h, w=w, primitive=True))
        if h != w and h * w in (2, 3):
            for prim in (False, True):
                out.append(dict(name="frame%dx%d/cycle/pr%d/after-transposed" % (h, w, prim), fn="cycle", form="frame", h=h, w=w, primitive=prim,
                                prior=True))
    return out


def spot(tier, rng):
    """large frames with the edges and the returned array pinned: perimeter cycle, a snake-like cycle, broken and doubled variants"""
    out = []
    for (h, w) in ((4, 4), (5, 6)) if tier == "quick" else ((4, 4), (5, 6), (6, 6), (3, 10)):
        n = (h + 1) * (w + 1)
        nh = (h + 1) * w

        def pattern(hset, vset):
            # order of x: edge flags in frame_geometry order (horizontal row-major, then vertical), then is_passed row-major
            on_h = [((y, x) in hset) for y in range(h + 1) for x in range(w)]
            on_v = [((y, x) in vset) for y in range(h) for x in range(w + 1)]
            deg = [0] * n
            for y in range(h + 1):
                for x in range(w):
                    if (y, x) in hset:
                        deg[y * (w + 1) + x] += 1
                        deg[y * (w + 1) + x + 1] += 1
            for y in range(h):
                for x in range(w + 1):
                    if (y, x) in vset:
                        deg[y * (w + 1) + x] += 1
                        deg[(y + 1) * (w + 1) + x] += 1
            return on_h + on_v + [dd > 0 for dd in deg]
        per_h = {(0, x) for x in range(w)} | {(h, x) for x in range(w)}
        per_v = {(y, 0) for y in range(h)} | {(y, w) for y in range(h)}
        inner_h = {(1, x) for x in range(1, w - 1)} | {(h - 1, x) for x in range(1, w - 1)}
        inner_v = {(y, 1) for y in range(1, h - 1)} | {(y, w - 1) for y in range(1, h - 1)}
        pats = [pattern(per_h, per_v), pattern(per_h - {(0, 0)}, per_v), pattern(per_h | inner_h, per_v | inner_v),
                pattern(inner_h, inner_v), pattern(set(), set())]
        # a long winding (comb-shaped) cycle through every lattice point of an odd-width strip: rows are traversed boustrophedon
        # from column 1, column 0 closes the cycle (needs (w+1) even or handled by dropping the last column)
        W1 = w + 1 if (w + 1) % 2 == 0 else w          # number of lattice columns used (even)
        if W1 >= 2 and h >= 1:
            ch, cv = set(), set()
            for y in range(h + 1):                      # every row: horizontal run over columns 1..W1-1
                for x in range(1, W1 - 1):
                    ch.add((y, x))
            for y in range(h):                          # connect consecutive rows alternately at the right / at column 1
                cv.add((y, W1 - 1) if y % 2 == 0 else (y, 1))
            for y in range(h):                          # column 0 closes it
                cv.add((y, 0))
            ch.add((0, 0))
            ch.add((h, 0)) if h % 2 == 1 else None
            cand = pattern(ch, cv)
            pats.append(cand)
        wrong = pattern(per_h, per_v)
        wrong[-1] = not wrong[-1]
        pats.append(wrong)
        for prim in (False, True):
            out.append(dict(name="spot-frame%dx%d/cycle/pr%d" % (h, w, prim), fn="cycle", form="frame", h=h, w=w, primitive=prim, patterns=pats))
    return out


def key_of(d, kind):
    return "%s,%s,primitive=%d,%s" % (d["fn"], "frame" if d["form"] == "frame" else "graph", d["primitive"], kind)


def run(tier, only=None):
    return E.run_engine_a(
        "C06", MOD, FILES, tier, only, instances, key_of, "active_edges_single_cycle/path",
        ["cspuz.graph.active_edges_single_cycle", "cspuz.graph._active_edges_single_cycle", "cspuz.graph.active_edges_single_path",
         "cspuz.graph._active_edges_single_path", "cspuz.graph.Graph.line_graph", "cspuz.graph._from_grid_frame",
         "cspuz.grid_frame.BoolGridFrame.__init__/__getitem__"],
        {"graphs": "hand-picked multigraphs with parallel edges, all simple graphs <= %d vertices, seeded random multigraphs" % (4 if tier == "quick" else 5),
         "frames": "0x0 .. 2x2, 1x3" if tier == "quick" else "0x0 .. 3x3, 1x5, 5x1, 2x4",
         "x": "edge flags and the returned is_passed array are both free: 'true exactly at visited vertices in every satisfying assignment' is part of both queries"},
        ["larger graphs/frames (beyond the bound only pinned 'spot' patterns on frames up to 6x6 / 3x10 are decided: perimeter cycle, broken, "
         "two nested cycles, inner cycle, empty, wrong is_passed)", "the non-primitive single_path route (raises RuntimeError('TODO') by design)"],
        E.EXPL + " For BoolGridFrame inputs the specification is written over lattice geometry, independently of _from_grid_frame.", spot=spot)


replay = E.generic_replay
