"""C11 - bundled puzzle solvers agree with the puzzles' published rules (Engine A; instances enumerated, answer grids symbolic)."""
import importlib
import multiprocessing as mp
import random
import time
import traceback
import warnings

import z3

from cspuz import Solver
from cspuz.expr import BoolVar, IntVar

from .. import common
from ..ea import query, ref
from . import c11_specs as S
from ._ea_common import STD_ASSUMPTIONS

MOD = "vlib.checks.c11"
FILES = ["cspuz/puzzle/%s.py" % s.module for s in S.ALL] + ["cspuz/graph.py", "cspuz/solver.py"]


class _SolveTimeout(Exception):
    pass


def _run_real(sp, d, real_solve=True, solve_timeout_s=150):
    """runs the real solve_<puzzle> with the module's Solver substituted by a recording subclass.  real_solve=False: the
    posted program is all that is wanted - solve()/find_answer() answer True without searching (a changed program may be
    arbitrarily hard to solve); real_solve=True: the real search, under a wall-clock limit"""
    import signal
    mod = importlib.import_module("cspuz.puzzle." + sp.module)
    made = []

    class Rec(Solver):
        def __init__(self):
            super().__init__()
            made.append(self)

        def solve(self, *a, **kw):
            if stub[0]:
                return True
            return super().solve(*a, **kw)

        def find_answer(self, *a, **kw):
            if stub[0]:
                return True
            return super().find_answer(*a, **kw)
    stub = [not real_solve]      # only while solve_<puzzle> itself runs: replays use the recorded Solver's real find_answer

    def _alarm(signum, frame):
        raise _SolveTimeout()
    old = None
    if real_solve:
        old = signal.signal(signal.SIGALRM, _alarm)
        signal.setitimer(signal.ITIMER_REAL, solve_timeout_s, 0.5)     # repeats: an exception raised inside a __del__ is swallowed
    saved = mod.Solver
    mod.Solver = Rec
    try:
        with warnings.catch_warnings():
            warnings.simplefilter("ignore")
            if d.get("prior") is not None:
                # history: the module solved another instance (same board size) earlier in this process
                keep = stub[0]
                stub[0] = True
                try:
                    sp.call(mod, d["prior"])
                finally:
                    stub[0] = keep
                del made[:]
            ret = sp.call(mod, d)
    finally:
        mod.Solver = saved
        stub[0] = False
        if real_solve:
            signal.setitimer(signal.ITIMER_REAL, 0)
            signal.signal(signal.SIGALRM, old)
    if len(made) != 1:
        raise AssertionError("expected exactly one Solver to be created, saw %d" % len(made))
    return made[0], ret


def build(d):
    sp = S.BY_NAME[d["puzzle"]]
    solver, ret = _run_real(sp, d, real_solve=False)
    xv = sp.answers(ret)

    def spec_z3(env):
        return sp.rule(d, ret, env)

    def spec_py(assign):
        env = ref.Env()
        R = sp.rule(d, ret, env)
        subs = []
        for v in xv:
            val = assign[id(v)]
            subs.append((env.z(v), z3.BoolVal(val) if isinstance(v, BoolVar) else z3.IntVal(val)))
        r = z3.simplify(z3.substitute(R, *subs))
        if z3.is_true(r):
            return True
        if z3.is_false(r):
            return False
        raise AssertionError("rule specification did not evaluate to a constant")
    b = query.Built(solver, xv, spec_z3, spec_py)
    b.ret = ret
    return b


def decide(d, timeout_s):
    """queries of query.decide + comparison of the (is_sat, answers) actually returned with the rules"""
    res = query.decide(MOD, d, timeout_s)
    if res.get("status") != "ok":
        return res
    try:
        sp = S.BY_NAME[d["puzzle"]]
        try:
            solver, ret = _run_real(sp, d)
        except _SolveTimeout:
            res["facts"] = "inconclusive"
            return res
        xv = sp.answers(ret)
        env = ref.Env()
        R = z3.And(env.domain(xv), sp.rule(d, ret, env))
        q = z3.Solver()
        q.set("timeout", timeout_s * 1000)
        q.add(R)
        t0 = time.time()
        v = str(q.check())
        facts = []
        if v not in ("sat", "unsat"):
            res["facts"] = "inconclusive"
            return res
        is_sat = ret[0]
        if bool(is_sat) != (v == "sat"):
            facts.append("solver reported is_sat=%r but the rules are %s" % (is_sat, "satisfiable" if v == "sat" else "unsatisfiable"))
        elif v == "sat":
            m = q.model()
            keys = [var for var, k in zip(solver.variables, solver.is_answer_key) if k]
            if set(id(k) for k in keys) != set(id(x) for x in xv):
                facts.append("answer keys are not exactly the returned answer variables")
            for var in xv:
                zv = env.z(var)
                if var.sol is None:
                    q.push()
                    q.add(zv != m.eval(zv, model_completion=True))
                    r2 = str(q.check())
                    q.pop()
                    if r2 == "unsat":
                        facts.append("cell #%d reported undecided but all rule-obeying grids agree on %s" % (var.id, m.eval(zv, model_completion=True)))
                        break
                else:
                    q.push()
                    q.add(zv != (z3.BoolVal(var.sol) if isinstance(var, BoolVar) else z3.IntVal(var.sol)))
                    r2 = str(q.check())
                    q.pop()
                    if r2 == "sat":
                        facts.append("cell #%d reported as %r but a rule-obeying grid with another value exists" % (var.id, var.sol))
                        break
        res["facts"] = facts
        res["queries"].append(("reported-facts", "ok" if not facts else "mismatch", time.time() - t0))
    except Exception as e:
        res["status"] = "harness-exception"
        res["exception"] = "%s: %s" % (type(e).__name__, e)
        res["trace"] = traceback.format_exc()[-1500:]
    return res


def _worker(args):
    d, tmo = args
    return query.isolated(decide, d, tmo)


def key_of(d, kind):
    return "%s,%s" % (d["puzzle"], kind)


def run(tier, only=None):
    rep = common.Report("C11", tier, "translation_validation", FILES)
    rng = random.Random(common.seed())
    descs = []
    per = {}
    for sp in S.ALL:
        ds = sp.instances(tier, random.Random(rng.random()))
        ds += S.derive_instances(sp, random.Random(rng.random()), tier)
        for d in ds:
            d["puzzle"] = sp.module
            d["name"] = sp.name_of(d)
        # histories: the same instance after the module solved ANOTHER instance of the same board size in this process
        hist = []
        by_shape = {}
        for d in ds:
            by_shape.setdefault(S.shape_key(d), []).append(d)
        rr = random.Random(rng.random())
        for key, group in sorted(by_shape.items(), key=lambda kv: str(kv[0])):
            if len(group) < 2:
                continue
            n = len(group)
            npairs = min(n, 8 if tier == "quick" else 24)
            for i in range(npairs):
                b = group[(i * max(1, n // npairs)) % n]
                a = group[(i * max(1, n // npairs) + 1 + (i * 5) % (n - 1)) % n]      # spread over the group: clue-free, clued, with holes...
                if S.content_key(a) == S.content_key(b):
                    continue
                e = {k: v for k, v in b.items() if k not in ("prior",)}
                e["prior"] = {k: v for k, v in a.items() if k not in ("prior", "name", "puzzle", "tag")}
                e["tag"] = "%s/after:%s" % (b.get("tag", "?"), a.get("tag", "?"))
                e["name"] = sp.name_of(e)
                hist.append(e)
        rr.shuffle(hist)
        hist = hist[: (32 if tier == "quick" else 120)]
        ds += hist
        per[sp.module] = len(ds)
        descs += ds
    if only:
        descs = [d for d in descs if only in d["name"]]
    tmo = 60 if tier == "quick" else 240
    ctx = mp.get_context("fork")
    results = []
    with ctx.Pool(common.ncores(), maxtasksperchild=64) as pool:      # (each instance runs in its own forked child: query.isolated)
        for r in pool.imap_unordered(_worker, [(d, tmo) for d in descs]):
            results.append(r)
    query.absorb(rep, MOD, results, key_of, "solve_<puzzle>")
    per_ok = {}
    for r in results:
        d = r["desc"]
        if r.get("status") != "ok":
            continue
        f = r.get("facts")
        if f == "inconclusive":
            rep.inconc("%s reported-facts" % d["name"])
        elif f:
            # replay = re-run the real solver on the instance and compare with the rules again
            rep.counterexample(key_of(d, "reported-facts"), "%s: %s" % (d["name"], "; ".join(f)),
                               {"module": MOD, "desc": d, "kind": "facts"}, _replay_facts(d))
        elif f is not None:
            rep.ok()
            rep.distinct.add((d["name"], "facts"))
            per_ok[d["puzzle"]] = per_ok.get(d["puzzle"], 0) + 1
    rep.extra["instances_per_puzzle"] = per
    rep.extra["instances_fully_agreeing_per_puzzle"] = per_ok
    rep.extra["modules_with_rule_specification"] = [s.module for s in S.ALL]
    rep.extra["modules_not_covered"] = S.NOT_COVERED
    rep.extra["reading_notes"] = {s.module: s.note for s in S.ALL if getattr(s, "note", None)}
    rep.functions = ["cspuz.puzzle.%s.%s" % (s.module, s.fn) for s in S.ALL] + ["(through them) the graph constraints of C04-C09"]
    rep.bounds = {"instances": "enumerated (seeded) clue layouts per puzzle on every board shape up to the per-puzzle cell bound "
                  "(4-12 cells quick, 6-12+ thorough), always including non-square boards, clue-free boards, edge clues and zero clues",
                  "per-query timeout_s": tmo, "instances total": len(descs)}
    rep.outside = ["larger boards; clue layouts not enumerated (clues drive Python-level branching inside solve_*, so they cannot be symbolic)",
                   "modules without a rule specification: %s" % ", ".join(sorted(S.NOT_COVERED))]
    rep.assumptions = STD_ASSUMPTIONS + ["the rule specifications in vlib/checks/c11_specs.py are the published rules (with the reading notes listed "
                                         "in the evidence)", "the loop convention 'no line at all is a loop' as documented by the library"]
    return rep.finish("Per instance the real solve_<puzzle> runs with the module's Solver class substituted by a recording subclass; z3 decides, "
                      "over all candidate answer grids and all auxiliary variables at once, that the posted program admits exactly the grids "
                      "obeying the rule specification (soundness + exists-forall completeness); then the (is_sat, answers) actually returned "
                      "are compared with z3 on the rules (satisfiable iff, decided cells forced, undecided cells ambiguous).")


def _replay_facts_here(d):
    try:
        r = decide(d, 60)
    except Exception:
        return True
    return bool(r.get("facts")) and r.get("facts") != "inconclusive"


def _replay_facts(d):
    return bool(query.fresh_call(MOD, "_replay_facts_here", d))


def replay(payload, verbose=False):
    if payload.get("kind") == "facts":
        return _replay_facts(payload["desc"])
    ok, detail = query.replay(payload["module"], payload["desc"], payload["kind"], payload.get("witness"), verbose)
    if verbose:
        print(detail)
    return ok
