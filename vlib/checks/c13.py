"""C13 - array indexing and slicing follow Python nested-list semantics (Engine B: CrossHair)."""
import os

from cspuz import Solver
from cspuz.array import BoolArray1D, BoolArray2D, IntArray1D, IntArray2D

from .. import common
from ..eb import runner

FILES = ["cspuz/array.py"]
HF = os.path.join(common.VERIF, "vlib", "eb", "harness", "h_c13.py")


def finite_tables(rep):
    """flatten / reshape row-major identity and 1-D indexing against Python lists (finite, labelled; no solver)"""
    for (h, w) in [(1, 1), (2, 3), (3, 2), (1, 4), (4, 1), (0, 3)]:
        s = Solver()
        for mk in (s.bool_array, lambda sh: s.int_array(sh, 0, 1)):
            a = mk((h, w))
            rep.finite_tables += 1
            ids = [v.id for v in a.data]
            ok = [v.id for v in a.flatten().data] == ids and [v.id for v in a.flatten()] == ids
            for (h2, w2) in [(w, h), (1, h * w), (h * w, 1)]:
                r = a.reshape((h2, w2))
                ok = ok and tuple(r.shape) == (h2, w2) and [v.id for v in r.data] == ids
                ok = ok and all(r[i, j].id == ids[i * w2 + j] for i in range(h2) for j in range(w2))
                ok = ok and [v.id for v in a.flatten().reshape((h2, w2)).data] == ids
            try:
                a.reshape((h + 1, w + 1))
                ok = False
            except ValueError:
                pass
            if not ok:
                rep.counterexample("flatten-reshape", "flatten/reshape not row-major on %dx%d" % (h, w), {"engine": "table", "h": h, "w": w}, True)
    # 1-D arrays: list semantics for ints and slices
    s = Solver()
    for n in (0, 1, 4):
        a = s.bool_array(n)
        L = list(a.data)
        rng = list(range(-n - 2, n + 3)) + [None]
        for st in rng:
            for sp in rng:
                for step in (None, 1, 2, -1, -2, 3, -3):
                    rep.finite_tables += 1
                    got = a[st:sp:step]
                    if type(got) is not BoolArray1D or [id(x) for x in got.data] != [id(x) for x in L[st:sp:step]]:
                        rep.counterexample("1d-slice", "BoolArray1D[%r:%r:%r] on size %d" % (st, sp, step, n),
                                           {"engine": "table", "n": n, "key": [st, sp, step]}, True)
        for k in range(-n - 2, n + 3):
            rep.finite_tables += 1
            try:
                want = L[k]
            except IndexError:
                want = IndexError
            try:
                got = a[k]
            except IndexError:
                got = IndexError
            if got is not want:
                rep.counterexample("1d-int", "BoolArray1D[%d] on size %d" % (k, n), {"engine": "table", "n": n, "k": k}, True)


def run(tier, only=None):
    rep = common.Report("C13", tier, "other", FILES)
    T = 70 if tier == "quick" else 300
    conds = []
    for f in ["h_slice_p1", "h_slice_p2", "h_slice_p3", "h_slice_p4", "h_slice_m1", "h_slice_m2", "h_slice_m3", "h_slice_m4"]:
        conds.append(runner.Cond(HF, f, T, key="slice-kernel-" + ("neg" if "_m" in f else "pos")))
    conds.append(runner.Cond(HF, "h_int_key", T, key="int-key"))
    shapes = ["2x2"] if tier == "quick" else ["2x2", "2x3", "3x3", "1x3", "3x1"]
    for sh in shapes:
        for kind in (("B",) if tier == "quick" else ("B", "I")):
            env = {"VERIF_SHAPE": sh, "VERIF_KIND": kind, "VERIF_KB": "3" if tier == "quick" else "4", "VERIF_SB": "2" if tier == "quick" else "3"}
            for f in ["h_gather_int_int", "h_gather_int_slice", "h_gather_slice_int", "h_gather_slice_slice", "h_gather_single_int",
                      "h_gather_single_slice", "h_gather_coords"]:
                e2 = dict(env)
                if f == "h_gather_slice_slice":
                    e2.update({"VERIF_KB": "1" if tier == "quick" else "2", "VERIF_SB": "1", "VERIF_NONE_STEP": "0" if tier == "quick" else "1"})      # six symbolic fields: smaller ranges so that the paths can be exhausted
                conds.append(runner.Cond(HF, f, (2 * T if f != "h_gather_slice_slice" else 6 * T), name="%s[%s,%s]" % (f, sh, kind), env=e2,
                                         key="gather-" + f[9:]))
    if tier == "quick":
        # a non-square shape for the two-axis gathers (anything keyed on the slice alone, not on the axis, needs h != w)
        env = {"VERIF_SHAPE": "2x3", "VERIF_KIND": "B", "VERIF_KB": "1", "VERIF_SB": "1", "VERIF_NONE_STEP": "0"}
        conds.append(runner.Cond(HF, "h_gather_slice_slice", 6 * T, name="h_gather_slice_slice[2x3,B]", env=env, key="gather-slice_slice"))
        env = {"VERIF_SHAPE": "3x2", "VERIF_KIND": "B", "VERIF_KB": "3", "VERIF_SB": "1"}
        conds.append(runner.Cond(HF, "h_gather_int_slice", 2 * T, name="h_gather_int_slice[3x2,B]", env=env, key="gather-int_slice"))
        conds.append(runner.Cond(HF, "h_gather_slice_int", 2 * T, name="h_gather_slice_int[3x2,B]", env=env, key="gather-slice_int"))
    if only:
        conds = [c for c in conds if only in c.name]
    runner.run_conditions(rep, conds)
    finite_tables(rep)
    rep.functions = ["cspuz.array._parse_range", "cspuz.array._range_size", "cspuz.array.Array2D._getitem_impl",
                     "BoolArray2D/IntArray2D.__getitem__", "BoolArray1D.__getitem__", "flatten", "reshape/_reshape"]
    rep.bounds = {"slice kernel": "size, start, stop UNBOUNDED symbolic ints (or None); step fixed per condition in +-1..+-4",
                  "integer keys": "size 0..6, key -9..9 (the IndexError message formats the ints, which makes CrossHair realise them)",
                  "gather": "shapes %s; key fields in -%s..%s (or None), steps up to +-%s; explored path-per-value by CrossHair" % (shapes, *(("3", "3", "2") if tier == "quick" else ("4", "4", "3"))),
                  "per-condition CPU budget s": T,
                  "finite tables": "flatten/reshape on 6 shapes; BoolArray1D slices/ints on sizes 0,1,4 (no solver, labelled)"}
    rep.outside = ["step == 0 (cspuz treats it as 1; list indexing raises ValueError - the property speaks of IndexError only)",
                   "|step| > 4 in the kernel", "non-int index objects"]
    rep.assumptions = ["CrossHair 0.0.110 'Confirmed over all paths' is sound", "ref_slice() in the harness is a faithful transcription of "
                       "CPython's PySlice_Unpack/PySlice_AdjustIndices (validated against list slicing by the finite tables' domain)"]
    return rep.finish("CrossHair executes the real _parse_range/_range_size/__getitem__ symbolically; the harness postcondition compares "
                      "first index, count, element identities, result class and shape, and IndexError behaviour with a pure-Python "
                      "reference of list slicing. 'Confirmed over all paths' is the only verdict counted as holding; each harness has a "
                      "reachability twin.")


replay = runner.generic_replay
