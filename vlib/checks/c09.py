"""C09 - active_edges_acyclic admits exactly the forests."""
from cspuz import Solver, graph as G
from cspuz.array import BoolArray1D

from ..ea import graphs, query, ref, spec
from . import _ea_common as E

MOD = "vlib.checks.c09"
FILES = ["cspuz/graph.py", "cspuz/constraints.py", "cspuz/expr.py"]


def build(d):
    s = Solver()
    n, edges = d["n"], [tuple(e) for e in d["edges"]]
    items = E.bool_items(s, len(edges), d["mode"])
    xv = list(s.variables)
    G.active_edges_acyclic(s, BoolArray1D(items) if d["form"] == "array1d" else items, E.mk_graph(n, edges, d.get("history")))

    def spec_z3(env):
        return spec.forest(n, edges, [ref.rb(x, env) for x in items])

    def spec_py(assign):
        return spec.forest_py(n, edges, [bool(ref.pyeval(x, assign)) for x in items])
    return query.Built(s, xv, spec_z3, spec_py)


def instances(tier, rng):
    out = []
    gl = [(nm, n, es) for nm, (n, es) in graphs.multigraphs_small().items()]
    for n in range(2, (4 if tier == "quick" else 5) + 1):
        for i, es in enumerate(graphs.all_graphs(n)):
            if es:
                gl.append(("g%d_%d" % (n, i), n, es))
    from ..ea.spec import grid_edges
    for (h, w) in [(2, 2), (2, 3)] + ([] if tier == "quick" else [(3, 3), (2, 4)]):
        gl.append(("gridgraph%dx%d" % (h, w), h * w, grid_edges(h, w)))
    for k in range(6 if tier == "quick" else 40):
        n = rng.randint(3, 5 if tier == "quick" else 6)
        gl.append(("rndmulti%d" % k, n, graphs.random_multigraph(rng, n, rng.randint(2, 6 if tier == "quick" else 9))))
    for nm, n, es in gl:
        out.append(dict(name="%s/vars" % nm, n=n, edges=es, mode="vars", form="list"))
        for how in ("rev", "alt"):
            out.append(dict(name="%s/vars/%s" % (nm, how), n=n, edges=E.orient(es, how), mode="vars", form="list"))
        if len(es) >= 2:
            out.append(dict(name="%s/vars/hist" % nm, n=n, edges=es, mode="vars", form="list", history=len(es) // 2))
        if len(es) <= 6:
            out.append(dict(name="%s/and" % nm, n=n, edges=es, mode="and", form="array1d"))
            out.append(dict(name="%s/mixed" % nm, n=n, edges=es, mode="mixed", form="list"))
        if 1 <= len(es) <= 4:
            # every flag a Python constant (all 2^m choices), in the stored and in the reversed edge order
            for bits in range(1 << len(es)):
                out.append(dict(name="%s/const%d" % (nm, bits), n=n, edges=es, mode="const:%d" % bits, form="list"))
                if len(es) >= 3:
                    out.append(dict(name="%s/const%d/rev" % (nm, bits), n=n, edges=list(reversed(es)), mode="const:%d" % bits, form="list"))
    return out


def spot(tier, rng):
    out = []
    for n in ((12, 20) if tier == "quick" else (12, 20, 30, 40)):
        path = [(i, i + 1) for i in range(n - 1)]
        cyc = path + [(n - 1, 0)]
        zig = [(i, i + 2) for i in range(n - 2)] + [(0, 1)]
        for nm, es in (("path", path), ("cycle", cyc), ("zig", zig)):
            m = len(es)
            pats = [[True] * m, [True] * (m - 1) + [False], [False] * m, [i % 2 == 0 for i in range(m)], [rng.random() < 0.8 for _ in range(m)]]
            out.append(dict(name="spot-%s%d" % (nm, n), n=n, edges=es, mode="vars", form="list", patterns=pats))
    from ..ea.spec import grid_edges
    for (h, w) in ((4, 4), (5, 5)) if tier == "quick" else ((4, 4), (5, 5), (6, 6)):
        es = grid_edges(h, w)
        m = len(es)
        tree = [True] * m
        # comb-shaped spanning tree: all horizontal edges of row 0 plus all vertical edges
        comb = [(u // w == 0 and v == u + 1) or (v == u + w) for (u, v) in es]
        pats = [comb, [not c for c in comb], [True] * m, [False] * m] + [[rng.random() < 0.45 for _ in range(m)] for _ in range(3)]
        out.append(dict(name="spot-gridgraph%dx%d" % (h, w), n=h * w, edges=es, mode="vars", form="list", patterns=pats))
    return out


def key_of(d, kind):
    return "%s,%s,%s" % (d["form"], d["mode"], kind)


def run(tier, only=None):
    return E.run_engine_a(
        "C09", MOD, FILES, tier, only, instances, key_of, "active_edges_acyclic",
        ["cspuz.graph.active_edges_acyclic", "cspuz.graph.Graph.add_edge/incident_edges"],
        {"graphs": "hand-picked multigraphs with parallel edges, all simple graphs <= %d vertices, grid graphs, seeded random "
                   "loop-free multigraphs (<= %s)" % ((4, "5 vertices, 6 edges") if tier == "quick" else (5, "6 vertices, 9 edges")),
         "edge flags": "variables, a&b, mix with Python constants"},
        ["larger multigraphs (beyond the bound only pinned 'spot' patterns on paths/cycles up to 40 vertices and grid graphs up to 6x6 are "
         "decided, all rank assignments symbolic)", "graphs with self-loops (the property quantifies over loop-free multigraphs)"], E.EXPL,
        spot=spot)


replay = E.generic_replay
