"""C09 - active_edges_acyclic admits exactly the forests."""
from cspuz import Solver, graph as G
from cspuz.array import BoolArray1D

from ..ea import graphs, query, ref, spec
from . import _ea_common as E

MOD = "vlib.checks.c09"
FILES = ["cspuz/graph.py", "cspuz/constraints.py", "cspuz/expr.py"]


def build(d):
    s = Solver()
    n, edges = d["n"], [tuple(e) for e in d["edges"]]
    items = E.bool_items(s, len(edges), d["mode"])
    xv = list(s.variables)
    G.active_edges_acyclic(s, BoolArray1D(items) if d["form"] == "array1d" else items, E.mk_graph(n, edges))

    def spec_z3(env):
        return spec.forest(n, edges, [ref.rb(x, env) for x in items])

    def spec_py(assign):
        return spec.forest_py(n, edges, [bool(ref.pyeval(x, assign)) for x in items])
    return query.Built(s, xv, spec_z3, spec_py)


def instances(tier, rng):
    out = []
    gl = [(nm, n, es) for nm, (n, es) in graphs.multigraphs_small().items()]
    for n in range(2, (4 if tier == "quick" else 5) + 1):
        for i, es in enumerate(graphs.all_graphs(n)):
            if es:
                gl.append(("g%d_%d" % (n, i), n, es))
    from ..ea.spec import grid_edges
    for (h, w) in [(2, 2), (2, 3)] + ([] if tier == "quick" else [(3, 3), (2, 4)]):
        gl.append(("gridgraph%dx%d" % (h, w), h * w, grid_edges(h, w)))
    for k in range(6 if tier == "quick" else 40):
        n = rng.randint(3, 5 if tier == "quick" else 6)
        gl.append(("rndmulti%d" % k, n, graphs.random_multigraph(rng, n, rng.randint(2, 6 if tier == "quick" else 9))))
    for nm, n, es in gl:
        out.append(dict(name="%s/vars" % nm, n=n, edges=es, mode="vars", form="list"))
        if len(es) <= 6:
            out.append(dict(name="%s/and" % nm, n=n, edges=es, mode="and", form="array1d"))
            out.append(dict(name="%s/mixed" % nm, n=n, edges=es, mode="mixed", form="list"))
    return out


def key_of(d, kind):
    return "%s,%s,%s" % (d["form"], d["mode"], kind)


def run(tier, only=None):
    return E.run_engine_a(
        "C09", MOD, FILES, tier, only, instances, key_of, "active_edges_acyclic",
        ["cspuz.graph.active_edges_acyclic", "cspuz.graph.Graph.add_edge/incident_edges"],
        {"graphs": "hand-picked multigraphs with parallel edges, all simple graphs <= %d vertices, grid graphs, seeded random "
                   "loop-free multigraphs (<= %s)" % ((4, "5 vertices, 6 edges") if tier == "quick" else (5, "6 vertices, 9 edges")),
         "edge flags": "variables, a&b, mix with Python constants"},
        ["larger multigraphs", "graphs with self-loops (the property quantifies over loop-free multigraphs)"], E.EXPL)


replay = E.generic_replay
