"""C03 - Sugar-family back ends: emitted CSP text and parsed replies are faithful."""
import os
import random
import sys
import time
import types
import warnings

import z3

import cspuz
from cspuz import Solver, graph as G
from cspuz.array import BoolArray1D, IntArray1D
from cspuz.expr import BoolVar, IntVar
import cspuz.backend.sugar_like as SL

from .. import common
from ..ea import ref, sugartext, trees
from ..eb import runner

FILES = ["cspuz/backend/sugar_like.py", "cspuz/backend/_subproc.py", "cspuz/solver.py", "sugar_extension/CspuzSugarInterface.java",
         "cspuz/graph.py"]
NAMES = ["sugar", "sugar_extended", "csugar", "enigma_csp", "cspuz_core"]
NATIVE = {"sugar": False, "sugar_extended": True, "csugar": True, "enigma_csp": True, "cspuz_core": True}
HF = os.path.join(common.VERIF, "vlib", "eb", "harness", "h_c03.py")


def _answer(text):
    """the stand-in solver's reply; its own (recursive) reader gets a recursion limit of its own, restored before the library
    continues, so that the library's behaviour on deeply nested constraints is the one a user sees"""
    old = sys.getrecursionlimit()
    sys.setrecursionlimit(max(old, 400000))
    try:
        return sugartext.answer(text)
    finally:
        sys.setrecursionlimit(old)


class Capture:
    """observes the string handed to the external solver through each back end's real entry point"""

    def __init__(self):
        self.calls = []     # (entry point, text)
        self._saved_run = SL.run_subprocess
        self._saved_mods = {}

    def __enter__(self):
        cap = self

        def fake_run(args, input, timeout=None):
            cap.calls.append(("subprocess:%s" % (args,), input))
            return _answer(input)
        SL.run_subprocess = fake_run
        for name in ("pycsugar", "enigma_csp", "cspuz_core"):
            self._saved_mods[name] = sys.modules.get(name)
            m = types.ModuleType(name)

            def solver(text, _n=name):
                cap.calls.append(("module:" + _n, text))
                return _answer(text)
            m.solver = solver
            sys.modules[name] = m
        return self

    def __exit__(self, *a):
        SL.run_subprocess = self._saved_run
        for name, m in self._saved_mods.items():
            if m is None:
                sys.modules.pop(name, None)
            else:
                sys.modules[name] = m


CALL_LIMIT_S = 60      # wall-clock limit for one find_answer / solve on these tiny programs (they take milliseconds)
EXPECT_ENTRY = {"sugar": "subprocess:", "sugar_extended": "subprocess:", "csugar": "module:pycsugar",
                "enigma_csp": "module:enigma_csp", "cspuz_core": "module:cspuz_core"}


# ---- programs -------------------------------------------------------------------------------------------------
def build_program(p):
    s = Solver()
    if p["kind"] == "tree":
        vs = []
        for ch in p["order"]:
            vs.append(s.bool_var() if ch == "b" else s.int_var(*p["doms"][len([v for v in vs if isinstance(v, IntVar)]) % len(p["doms"])]))
        bv = [v for v in vs if isinstance(v, BoolVar)]
        iv = [v for v in vs if isinstance(v, IntVar)]
        for t in p["steps"]:
            try:
                s.ensure(trees.mk(t, bv, iv))
            except trees.Unbuildable:
                pass
    elif p["kind"] == "many":
        # many variables, all of them answer keys (request-side chunking / line-length handling)
        vs = [s.bool_var() if k % 5 else s.int_var(0, 1) for k in range(p["nvars"])]
        s.ensure(vs[1] | vs[2], ~vs[6], vs[0] == 1)
        for k in range(7, p["nvars"] - 1, 9):
            if k % 5 and (k + 1) % 5:
                s.ensure(vs[k] == vs[k + 1])
    elif p["kind"] == "deep":
        # one constraint nested deeper than the interpreter's recursion limit, with non-commutative operators at the top and in
        # the chain: either the call raises RecursionError and nothing is emitted, or what is emitted must mean the same
        vs = [s.bool_var()] + [s.int_var(0, 1) for _ in range(p["depth"])]
        acc = vs[1]
        for k, v in enumerate(vs[2:]):
            acc = (acc - v) if (p["minus_every"] and k % p["minus_every"] == 0) else (acc + v)
        s.ensure(vs[0].then(acc <= p["bound"]))
        s.ensure(vs[0] | (vs[1] > vs[2]))
    elif p["kind"] == "connected":
        g = G.Graph(p["n"])
        for u, v in p["edges"]:
            g.add_edge(u, v)
        flags = [s.bool_var() if k % 3 else (s.bool_var() | s.bool_var()) for k in range(p["n"])]
        if p.get("consts"):
            flags[1] = True                  # Python constants among the operands of a native operator
            flags[-1] = False
        G.active_vertices_connected(s, flags, g, use_graph_primitive=True)
        s.ensure(flags[0])
    elif p["kind"] == "division":
        g = G.Graph(p["n"])
        for u, v in p["edges"]:
            g.add_edge(u, v)
        lab = s.int_array(p["n"], 0, 1)
        old = cspuz.config.use_graph_primitive
        cspuz.config.use_graph_primitive = True
        try:
            G.division_connected(s, lab, 2, g, roots=[0, None])
        finally:
            cspuz.config.use_graph_primitive = old
    elif p["kind"] == "cycle":
        g = G.Graph(p["n"])
        for u, v in p["edges"]:
            g.add_edge(u, v)
        G.active_edges_single_cycle(s, s.bool_array(len(p["edges"])), g, use_graph_primitive=True)
    elif p["kind"] == "borders":
        g = G.Graph(p["n"])
        for u, v in p["edges"]:
            g.add_edge(u, v)
        sizes = [None if k % 2 else (2 if k % 4 == 0 else s.int_var(1, p["n"])) for k in range(p["n"])]
        borders = list(s.bool_array(len(p["edges"])))
        if p.get("consts"):
            borders[0] = False
            borders[-1] = True
        G.division_connected_variable_groups_with_borders(s, group_size=sizes, is_border=borders, graph=g,
                                                          use_graph_primitive=True)
    keys = [v for k, v in enumerate(s.variables) if p["keymask"] >> (k % 16) & 1]
    if keys:
        s.add_answer_key(keys)
    return s


def check_emission(rep, p, name, mode):
    """mode: 'find' / 'solve'.  Returns list of issue strings (empty = fine)."""
    issues = []
    s = build_program(p)
    for v in s.variables:
        v.sol = None
    import signal

    class _Stuck(BaseException):
        pass

    def _alarm(signum, frame):
        raise _Stuck()
    old_handler = signal.signal(signal.SIGALRM, _alarm)
    limit_s = CALL_LIMIT_S if p["kind"] != "many" else 10 * CALL_LIMIT_S     # (refinement through plain Sugar needs one request per undecided key)
    signal.setitimer(signal.ITIMER_REAL, limit_s, 0.5)     # repeats: an exception raised inside a __del__ is swallowed
    try:
        with Capture() as cap:
            with warnings.catch_warnings():
                warnings.simplefilter("ignore")
                try:
                    ret = s.find_answer(backend=name) if mode == "find" else s.solve(backend=name)
                except RecursionError as e:
                    if p["kind"] == "deep":
                        return [], 0          # refusing a constraint deeper than the interpreter allows is not a wrong emission
                    return ["exception %s: %s" % (type(e).__name__, str(e)[:200])], 0
                except Exception as e:
                    return ["exception %s: %s" % (type(e).__name__, str(e)[:200])], 0
                except _Stuck:
                    # the stand-in solver answers at once, so only the library's own loop (refinement through plain Sugar) can spin
                    return ["no-termination: the call did not return within %d s (%d requests so far)" % (limit_s, len(cap.calls))], 0
    finally:
        signal.setitimer(signal.ITIMER_REAL, 0)
        signal.signal(signal.SIGALRM, old_handler)
    if not cap.calls:
        return ["no external solver call observed"], 0
    if p["kind"] == "deep":
        import sys
        old_limit = sys.getrecursionlimit()
        sys.setrecursionlimit(max(old_limit, 40 * p["depth"] + 10000))     # for the checker's own parser / reference translator only
        try:
            return _judge_emission(p, name, mode, s, cap, ret, issues)
        finally:
            sys.setrecursionlimit(old_limit)
    return _judge_emission(p, name, mode, s, cap, ret, issues)


def _judge_emission(p, name, mode, s, cap, ret, issues):
    nq = 0
    env = ref.Env(prefix="")
    if p["kind"] == "tree":
        # the documented meaning of the program's description (independent of the trees the library built)
        zb = [env.z(v) for v in s.variables if isinstance(v, BoolVar)]
        zi = [env.z(v) for v in s.variables if isinstance(v, IntVar)]
        R = z3.And(env.domain(s.variables), *[trees.ref_desc(t, zb, zi) for t in p["steps"] if trees.buildable(t)])
    else:
        R = z3.And(env.domain(s.variables), *[ref.rb(c, env) for c in s.constraints])
    keys_expected = ["%s%d" % ("b" if isinstance(v, BoolVar) else "i", v.id) for v, k in zip(s.variables, s.is_answer_key) if k]
    first = True
    for entry, text in cap.calls:
        if not entry.startswith(EXPECT_ENTRY[name]):
            issues.append("solve went to %s instead of %s" % (entry, EXPECT_ENTRY[name]))
        if entry.startswith("subprocess:") and "/dev/stdin" not in entry:
            issues.append("subprocess not reading /dev/stdin: %s" % entry)
        try:
            prog = sugartext.Program(text, prefix="")
        except Exception as e:
            issues.append("emitted text is not well-formed Sugar CSP: %s: %s" % (type(e).__name__, e))
            break
        want_decl = [("%s%d" % ("b" if isinstance(v, BoolVar) else "i", v.id), "bool" if isinstance(v, BoolVar) else "int",
                      None if isinstance(v, BoolVar) else v.lo, None if isinstance(v, BoolVar) else v.hi) for v in s.variables]
        if sorted(prog.decls, key=str) != sorted(want_decl, key=str):
            issues.append("declarations differ: text %r vs solver %r" % (prog.decls[:6], want_decl[:6]))
            break
        if mode == "solve" and NATIVE[name]:
            if prog.keys is None or sorted(prog.keys) != sorted(keys_expected) or len(prog.keys) != len(set(prog.keys)):
                issues.append("answer-key line %r, registered keys %r" % (prog.keys, keys_expected))
        elif prog.keys is not None:
            issues.append("answer-key line present in plain mode")
        if first:
            # first call = the posted program; later calls (refinement through 'sugar') add refuting clauses and are implied stronger
            q = z3.Solver()
            q.set("timeout", 30000)
            q.add(z3.Xor(prog.formula(), R))
            v = str(q.check())
            nq += 1
            if v == "sat":
                issues.append("emitted text and posted constraints differ at %s" % (q.model(),))
            elif v != "unsat":
                issues.append("inconclusive:" + v)
        else:
            q = z3.Solver()
            q.set("timeout", 30000)
            q.add(prog.formula(), z3.Not(R))
            v = str(q.check())
            nq += 1
            if v == "sat":
                issues.append("a later call dropped posted constraints")
        first = False
    # reflected results
    q = z3.Solver()
    q.add(R)
    rsat = q.check() == z3.sat
    nq += 1
    if ret != rsat:
        issues.append("returned %r but the program is %s" % (ret, "sat" if rsat else "unsat"))
    elif ret and mode == "find":
        subs = []
        for var in s.variables:
            if isinstance(var, BoolVar):
                if type(var.sol) is not bool:
                    issues.append("bool var #%d sol %r" % (var.id, var.sol))
                    break
                subs.append((env.z(var), z3.BoolVal(var.sol)))
            else:
                if type(var.sol) is not int:
                    issues.append("int var #%d sol %r" % (var.id, var.sol))
                    break
                subs.append((env.z(var), z3.IntVal(var.sol)))
        else:
            if not z3.is_true(z3.simplify(z3.substitute(R, *subs))):
                issues.append("sol values are not a model")
    elif ret and mode == "solve":
        m = q.model()
        for var, is_key in zip(s.variables, s.is_answer_key):
            zv = env.z(var)
            if not is_key:
                continue
            mv = m.eval(zv, model_completion=True)
            q.push()
            q.add(zv != (mv if var.sol is None else (z3.BoolVal(var.sol) if isinstance(var, BoolVar) else z3.IntVal(var.sol))))
            r2 = q.check()
            q.pop()
            nq += 1
            if var.sol is None and r2 == z3.unsat:
                issues.append("key #%d None but forced" % var.id)
            if var.sol is not None and r2 == z3.sat:
                issues.append("key #%d = %r not forced" % (var.id, var.sol))
            if var.sol is not None and type(var.sol) is not (bool if isinstance(var, BoolVar) else int):
                issues.append("key #%d has sol of type %s" % (var.id, type(var.sol).__name__))
    return issues, nq


def programs(tier, rng):
    out = []
    n1 = 150 if tier == "quick" else 1500
    for d in trees.depth1()[:: (7 if tier == "quick" else 1)]:
        out.append({"kind": "tree", "order": rng.choice(["bbii", "ibib", "iibb"]), "doms": [(-3, -1), (-2, 5)],
                    "steps": [trees.as_constraint(rng, d)], "keymask": rng.randrange(16)})
    for d in trees.pair_cover(rng, 2, 1 if tier == "quick" else 3)[:: (3 if tier == "quick" else 1)]:
        out.append({"kind": "tree", "order": rng.choice(["bbii", "ibib", "iibb"]), "doms": [(0, 3), (-2, 2)],
                    "steps": [trees.as_constraint(rng, d)], "keymask": rng.randrange(16)})
    for k in range(n1):
        steps = [trees.as_constraint(rng, trees.random_tree(rng, rng.choice("BI"), rng.randint(1, 3))) for _ in range(rng.randint(1, 3))]
        out.append({"kind": "tree", "order": rng.choice(["bbii", "ibib", "iibb"]), "doms": [(0, 2), (-1, 1)], "steps": steps,
                    "keymask": rng.randrange(16)})
    for k in range(6):
        steps = [trees.as_constraint(rng, trees.random_tree(rng, "B", 2))]
        out.append({"kind": "tree", "order": "ibib", "doms": [(2, 1), (0, 1)] if k % 2 else [(0, 1), (5, 3)], "steps": steps, "keymask": rng.randrange(16)})
    graphs_ = [(3, [(0, 1), (1, 2)]), (4, [(0, 1), (1, 2), (2, 3), (3, 0)]), (4, [(0, 1), (2, 3)]), (3, [(0, 1), (0, 1), (1, 2), (2, 0)])]
    for n, es in graphs_:
        for kind in ("connected", "division", "cycle", "borders"):
            out.append({"kind": kind, "n": n, "edges": es, "keymask": rng.randrange(1, 1 << 16)})
            if kind in ("connected", "borders"):
                out.append({"kind": kind, "n": n, "edges": es, "keymask": rng.randrange(1, 1 << 16), "consts": True})
    for depth, me, bound in ([(1200, 7, 5), (1500, 0, 700)] if tier == "quick" else [(1100, 0, 3), (1500, 0, 700), (2000, 2, 0), (3000, 7, 5), (6000, 3, -1)]):
        out.append({"kind": "deep", "depth": depth, "minus_every": me, "bound": bound, "keymask": 1})
    for nv in ((300,) if tier == "quick" else (257, 300, 520)):
        out.append({"kind": "many", "nvars": nv, "keymask": 0xFFFF})
    return out


def run(tier, only=None):
    rep = common.Report("C03", tier, "translation_validation", FILES)
    rng = random.Random(common.seed())
    progs = programs(tier, rng)
    t0 = time.time()
    stuck = {}
    for i, p in enumerate(progs):
        for name in (NAMES if tier == "thorough" or p["kind"] != "tree" else [NAMES[i % 5], NAMES[(i + 2) % 5]]):
            for mode in ("find", "solve"):
                if stuck.get((name, mode), 0) >= 2:
                    continue
                if p["kind"] == "many" and p["nvars"] > 300 and name == "sugar" and mode == "solve":
                    continue          # hundreds of refinement rounds through the stand-in solver: minutes of z3 time, nothing new          # this route already failed to terminate twice (reported): do not spend a minute per further program
                rep.programs += 1
                rep.evaluations += 1
                issues, nq = check_emission(rep, p, name, mode)
                rep.count_query("text<=>reference", 0.0, nq)
                pj = dict(p)
                if "steps" in pj:
                    pj["steps"] = [trees.to_json(t) for t in pj["steps"]]
                if not issues:
                    rep.ok()
                    rep.distinct.add((repr(pj), name, mode))
                    if rep.programs % 300 == 1:
                        rep.sample({"program": pj, "backend": name, "mode": mode})
                    continue
                for it in issues:
                    if it.startswith("inconclusive"):
                        rep.inconc(it)
                        continue
                    payload = {"engine": "A", "program": pj, "backend": name, "mode": mode}
                    if it.startswith("no-termination"):
                        stuck[(name, mode)] = stuck.get((name, mode), 0) + 1
                    rep.counterexample("%s,%s,%s" % (name, mode, it.split(" ")[0]), "%s/%s on %s: %s" % (name, mode, pj.get("steps", pj["kind"]), it),
                                       payload, True)
    rep.solver_time += time.time() - t0
    # reply parsing under CrossHair
    T = 90 if tier == "quick" else 900
    env = {"VERIF_RB": "20" if tier == "quick" else "120"}
    conds = [runner.Cond(HF, f, T, key="reply-" + f[2:], env=env) for f in
             ["h_reply_plain", "h_reply_deduction", "h_reply_unsat", "h_reply_ids"]]
    if only:
        conds = [c for c in conds if only in c.name]
    runner.run_conditions(rep, conds)
    rep.functions = ["cspuz.backend.sugar_like._convert_variable/_convert_expr/OP_TO_OPNAME", "SugarLikeBackend.__init__/add_constraint/solve/"
                     "solve_irrefutably", "SugarBackend/SugarExtendedBackend/CSugarBackend/EnigmaCSPBackend/CspuzCoreBackend._call_solver",
                     "cspuz.solver.Solver.find_answer/solve/_get_backend_by_name"]
    rep.bounds = {"programs": "%d (C01 tree family incl. every constructor over leaves and every parent/child pair; native connected / "
                  "division / cycle / graph-division operators on 4 graphs incl. a multigraph and '*' sizes)" % len(progs),
                  "back ends": NAMES, "modes": "find_answer and solve (answer keys from a random mask)",
                  "replies": "CrossHair: 1 bool + 1 int in +-%s, symbolic listed-subset flags, both formats, ids != positions" % env["VERIF_RB"]}
    rep.outside = ["replies with \\r\\n, stderr noise or partial output (outside the Java wrapper's grammar)", "the external binaries themselves"]
    rep.assumptions = ["vlib/ea/sugartext.py reads Sugar CSP syntax correctly (independent of sugar_like.py)", "reference translator; z3",
                       "reply formats as printed by sugar_extension/CspuzSugarInterface.java", "CrossHair soundness for the reply harnesses"]
    return rep.finish("The text handed to the external entry point of each of the five back ends is captured (run_subprocess replaced / stub "
                      "extension modules planted), parsed by an independent reader and z3 decides text <=> posted constraints for all "
                      "variable values; declarations and the answer-key line are compared exactly; replies from an exact solver behind "
                      "the protocol must come back as a model / as exactly the forced facts. Reply parsing with symbolic values: CrossHair.")


def replay(payload, verbose=False):
    if payload.get("engine") == "B":
        return runner.generic_replay(payload, verbose)
    p = dict(payload["program"])
    if "steps" in p:
        p["steps"] = [trees.from_json(t) for t in p["steps"]]
        p["doms"] = [tuple(d) for d in p["doms"]]
    if "edges" in p:
        p["edges"] = [tuple(e) for e in p["edges"]]
    rep = common.Report("C03", "quick", "translation_validation", FILES)
    issues, _ = check_emission(rep, p, payload["backend"], payload["mode"])
    if verbose:
        print(issues)
    return bool(issues)
