"""C07 - variable-group division (with/without borders) admits exactly valid partitions."""
import z3

from cspuz import Solver, graph as G
from cspuz.array import BoolArray1D, IntArray1D, IntArray2D
from cspuz.grid_frame import BoolInnerGridFrame

from ..ea import graphs, query, ref, spec
from . import _ea_common as E

MOD = "vlib.checks.c07"
FILES = ["cspuz/graph.py", "cspuz/grid_frame.py", "cspuz/array.py", "cspuz/constraints.py", "cspuz/expr.py"]


def _sizes(s, n, kind):
    """returns (argument for the per-vertex list form, per-vertex list of size exprs/None)"""
    if kind == "none":
        return None, [None] * n
    if isinstance(kind, list) and kind[0] == "const":
        return kind[1], [kind[1]] * n
    if kind == "var":
        v = s.int_var(0, n + 1)
        return v, [v] * n
    if isinstance(kind, list) and kind[0] == "list":
        out = []
        for e in kind[1]:
            if e is None:
                out.append(None)
            elif e == "v":
                out.append(s.int_var(0, n + 1))
            else:
                out.append(e)
        return out, out
    if kind == "allvar":
        out = [s.int_var(1, n) for _ in range(n)]
        return out, out
    raise ValueError(kind)


def build(d):
    s = Solver()
    if d["form"] in ("grid", "gridlist"):
        h, w = d["h"], d["w"]
        n, edges = h * w, spec.grid_edges(h, w)
    else:
        n, edges = d["n"], [tuple(e) for e in d["edges"]]
    arg, per_vertex = _sizes(s, n, d["size"])
    size_vars = ref.collect_vars([x for x in per_vertex if x is not None])

    if d["fn"] == "groups":
        if d["form"] == "grid":
            if isinstance(arg, list):
                a2 = IntArray2D(arg, (h, w)) if all(x is not None and not isinstance(x, int) for x in arg) else [arg[i * w:(i + 1) * w] for i in range(h)]
                gid = G.division_connected_variable_groups(s, shape=(h, w), group_size=a2)
            else:
                gid = G.division_connected_variable_groups(s, shape=(h, w), group_size=arg)
            if not isinstance(gid, IntArray2D) or gid.shape != (h, w):
                raise AssertionError("grid form must return an IntArray2D of the board's shape")
            gl = [gid[y, x] for y in range(h) for x in range(w)]
        elif d["form"] == "gridlist":   # shape inferred from a list-of-lists group_size
            a2 = [arg[i * w:(i + 1) * w] for i in range(h)]
            gid = G.division_connected_variable_groups(s, group_size=a2)
            gl = [gid[y, x] for y in range(h) for x in range(w)]
        else:
            g = E.mk_graph(n, edges, d.get("history"))
            a1 = IntArray1D(arg) if d["form"] == "array1d" else arg
            gid = G.division_connected_variable_groups(s, graph=g, group_size=a1)
            if not isinstance(gid, IntArray1D) or len(gid) != n:
                raise AssertionError("graph form must return an IntArray1D with one id per vertex")
            gl = list(gid)
        same = [[None] * n for _ in range(n)]
        same_vars = []
        for u in range(n):
            for v in range(u + 1, n):
                b = s.bool_var()
                s.ensure(b == (gl[u] == gl[v]))
                same[u][v] = b
                same_vars.append(b)
        xv = size_vars + same_vars

        def spec_z3(env):
            sm = [[None if same[u][v] is None else env.z(same[u][v]) for v in range(n)] for u in range(n)]
            return spec.partition_spec(n, edges, sm, [None if x is None else ref.ri(x, env) for x in per_vertex])

        def spec_py(assign):
            sm = [[None if same[u][v] is None else assign[id(same[u][v])] for v in range(n)] for u in range(n)]
            return spec.partition_spec_py(n, edges, sm, [None if x is None else ref.pyeval(x, assign) for x in per_vertex])
        return query.Built(s, xv, spec_z3, spec_py)

    # borders
    if d["form"] == "grid":
        inner = BoolInnerGridFrame(s, h, w)
        # geometry: vertical[y,x] separates (y,x)|(y,x+1); horizontal[y,x] separates (y,x)|(y+1,x)
        bedges, bflags = [], []
        for y in range(h):
            for x in range(w - 1):
                bedges.append((y * w + x, y * w + x + 1))
                bflags.append(inner.vertical[y, x])
        for y in range(h - 1):
            for x in range(w):
                bedges.append((y * w + x, (y + 1) * w + x))
                bflags.append(inner.horizontal[y, x])
        G.division_connected_variable_groups_with_borders(
            s, group_size=IntArray2D(arg, (h, w)), is_border=inner, use_graph_primitive=d["primitive"])
        edges = bedges
    else:
        bflags = E.bool_items(s, len(edges), d.get("mode", "vars"))
        g = E.mk_graph(n, edges, d.get("history"))
        gs = arg if (arg is None or isinstance(arg, list)) else [arg] * n
        import cspuz
        saved = (cspuz.config.use_graph_primitive, cspuz.config.use_graph_division_primitive)
        try:
            if d.get("config") is not None:
                # no per-call switch: the division primitive is governed by config.use_graph_division_primitive alone
                cspuz.config.use_graph_primitive, cspuz.config.use_graph_division_primitive = d["config"]
            G.division_connected_variable_groups_with_borders(
                s, group_size=gs, is_border=BoolArray1D(bflags) if d["form"] == "array1d" else bflags, graph=g,
                use_graph_primitive=None if d.get("config") is not None else d["primitive"])
        finally:
            cspuz.config.use_graph_primitive, cspuz.config.use_graph_division_primitive = saved
    if bool(d["primitive"]) != query.has_native(s.constraints):
        raise AssertionError("use_graph_primitive=%s but native operator present=%s" % (d["primitive"], query.has_native(s.constraints)))
    xv = size_vars + ref.collect_vars(bflags)

    def spec_z3(env):
        return spec.borders_spec(n, edges, [ref.rb(b, env) for b in bflags], [None if x is None else ref.ri(x, env) for x in per_vertex])

    def spec_py(assign):
        return spec.borders_spec_py(n, edges, [bool(ref.pyeval(b, assign)) for b in bflags],
                                    [None if x is None else ref.pyeval(x, assign) for x in per_vertex])
    return query.Built(s, xv, spec_z3, spec_py)


def _size_kinds(n, rng, many):
    ks = ["none", ["const", 1], ["const", 2], "var"]
    if n >= 3:
        ks.append(["const", n])
    l1 = [None] * n
    l1[0] = 2
    ks.append(["list", l1])
    l2 = [None] * n
    l2[-1] = "v"
    if n >= 2:
        l2[0] = 1
    ks.append(["list", l2])
    if many:
        for _ in range(3):
            ks.append(["list", [rng.choice([None, None, 1, 2, 3, "v"]) for _ in range(n)]])
    return ks


def instances(tier, rng):
    out = []
    gl = []
    maxn = 4 if tier == "quick" else 5
    for n in range(1, maxn + 1):
        for i, es in enumerate(graphs.all_graphs(n)):
            if n < 5 or i % 3 == 0:
                gl.append(("g%d_%d" % (n, i), n, es))
    if tier == "thorough":
        for nm, es in graphs.named_graphs(6).items():
            gl.append((nm, 6, es))
        gl.append(("par_tri", 3, [(0, 1), (0, 1), (1, 2), (2, 0)]))
    gl.append(("par2", 2, [(0, 1), (0, 1)]))
    for nm, n, es in gl:
        for ki, kind in enumerate(_size_kinds(n, rng, tier == "thorough")):
            if n >= 6 and ki not in (0, 2, 3):
                continue
            out.append(dict(name="%s/groups/s%d" % (nm, ki), fn="groups", form="list", n=n, edges=es, size=kind))
            if es:
                for prim in (False, True):
                    out.append(dict(name="%s/borders/s%d/pr%d" % (nm, ki, prim), fn="borders", form="list" if ki % 2 else "array1d",
                                    n=n, edges=es, size=kind, primitive=prim))
        if len(es) >= 2:
            # histories: the Graph object was used (and its line graph taken) before its last edges were added
            out.append(dict(name="%s/groups/s0/hist" % nm, fn="groups", form="list", n=n, edges=es, size="none", history=len(es) // 2))
            out.append(dict(name="%s/borders/s0/pr0/hist" % nm, fn="borders", form="list", n=n, edges=es, size="none", primitive=False,
                            history=len(es) // 2))
        if 1 <= len(es) <= 4:
            for cfg in ([True, False], [False, True]):
                out.append(dict(name="%s/borders/config%d%d" % (nm, cfg[0], cfg[1]), fn="borders", form="list", n=n, edges=es, size="none",
                                primitive=cfg[1], config=cfg))
            out.append(dict(name="%s/borders/and" % nm, fn="borders", form="list", n=n, edges=es, size="none", primitive=False, mode="and"))
        if 1 <= len(es) <= 6:
            # Python constants among the border flags (a constant-True border still has to separate two blocks)
            for off in range(4 if len(es) >= 3 else 2):
                for prim in (False, True):
                    out.append(dict(name="%s/borders/mixed%d/pr%d" % (nm, off, prim), fn="borders", form="list", n=n, edges=es, size="none",
                                    primitive=prim, mode="mixed%d" % off))
    cells = 6 if tier == "quick" else 8
    for (h, w) in graphs.grid_shapes(cells):
        n = h * w
        for ki, kind in enumerate(_size_kinds(n, rng, False)):
            out.append(dict(name="grid%dx%d/groups/s%d" % (h, w, ki), fn="groups", form="grid", h=h, w=w, size=kind))
            if isinstance(kind, list) and kind[0] == "list":
                out.append(dict(name="gridlist%dx%d/groups/s%d" % (h, w, ki), fn="groups", form="gridlist", h=h, w=w, size=kind))
        if n <= (6 if tier == "quick" else 8):
            out.append(dict(name="grid%dx%d/groups/allvar" % (h, w), fn="groups", form="grid", h=h, w=w, size="allvar"))
            for prim in (False, True):
                out.append(dict(name="grid%dx%d/borders/allvar/pr%d" % (h, w, prim), fn="borders", form="grid", h=h, w=w,
                                size="allvar", primitive=prim))
    return out


def spot(tier, rng):
    """border form on larger grids / paths with the border pattern (and the size variables) pinned"""
    out = []
    for n in ((10, 14) if tier == "quick" else (10, 14, 20)):
        es = [(i, i + 1) for i in range(n - 1)]
        m = len(es)
        # x = [size variable] + border flags   (size kind 'var')
        pats = [[n] + [False] * m, [n - 1] + [False] * m, [n // 2] + [i == n // 2 - 1 for i in range(m)], [1] + [True] * m,
                [2] + [i % 2 == 1 for i in range(m)], [3] + [i % 2 == 1 for i in range(m)]]
        for prim in (False, True):
            out.append(dict(name="spot-path%d/borders/var/pr%d" % (n, prim), fn="borders", form="list", n=n, edges=es, size="var",
                            primitive=prim, patterns=pats))
    return out


def key_of(d, kind):
    return "%s,%s,primitive=%s,%s" % (d["fn"], d["form"], d.get("primitive", "-"), kind)


def run(tier, only=None):
    return E.run_engine_a(
        "C07", MOD, FILES, tier, only, instances, key_of, "division_connected_variable_groups(_with_borders)",
        ["cspuz.graph.division_connected_variable_groups", "cspuz.graph._division_connected_variable_groups",
         "cspuz.graph.division_connected_variable_groups_with_borders", "cspuz.graph._division_connected_variable_groups_with_borders",
         "cspuz.grid_frame.BoolInnerGridFrame.dual", "cspuz.graph._from_grid_frame"],
        {"graphs": "simple graphs <= %d vertices, parallel-edge graphs%s" % ((4, "") if tier == "quick" else (5, ", 6-vertex families")),
         "grids": "h*w <= %d" % (6 if tier == "quick" else 8),
         "group_size": "absent, constants 1/2/n, one IntVar 0..n+1, per-vertex lists with None holes / constants / variables, IntArray2D of variables",
         "x": "plain form: fresh Booleans same[u,v] <=> group_id[u]==group_id[v] (ids themselves are auxiliary) + size variables; "
              "border form: is_border flags + size variables"},
        ["larger graphs", "GRAPH_DIVISION's meaning inside cspuz_core (interpreted per the docstring; the solver is not available offline)"],
        E.EXPL, tmo_quick=90, tmo_thorough=300, spot=spot)


replay = E.generic_replay
