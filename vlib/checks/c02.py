"""C02 - solve() reports exactly the facts common to all solutions (both refinement routes)."""
import itertools
import multiprocessing as mp
import random
import time
import traceback
import warnings

import z3

from cspuz import Solver
from cspuz.backend.z3 import Z3Backend
from cspuz.expr import BoolVar, IntVar

from .. import common
from ..ea import ref, sugartext, trees

FILES = ["cspuz/solver.py", "cspuz/backend/z3.py", "cspuz/backend/sugar_like.py", "cspuz/expr.py", "cspuz/constraints.py"]


# --- adversarial oracles: real Z3Backend, only the *choice* of model is steered ---------------------------
def steered(mode):
    class Steered(Z3Backend):
        def __init__(self, variables):
            super().__init__(variables)
            self.prev = None

        def _prefs(self):
            vs = self.variables
            zd = self.variables_dict
            out = []
            if mode == "hi":
                out.append([zd[v.id] if isinstance(v, BoolVar) else zd[v.id] == v.hi for v in vs])
                out.append([zd[v.id] for v in vs if isinstance(v, BoolVar)])
            if mode == "lo":
                out.append([z3.Not(zd[v.id]) if isinstance(v, BoolVar) else zd[v.id] == v.lo for v in vs])
            if self.prev is not None:
                same = {v.id: (zd[v.id] == self.prev[v.id]) for v in vs}
                if mode == "minchange":
                    # agree with the previous model on all variables but one
                    for v in vs:
                        out.append([same[w.id] for w in vs if w.id != v.id])
                if mode == "maxchange":
                    out.append([z3.Not(same[v.id]) for v in vs])
                    for k in range(len(vs)):
                        out.append([z3.Not(same[v.id]) for v in vs[k:]])
            return out

        def solve(self):
            for p in self._prefs() + [[]]:
                saved = self.converted_constraints
                self.converted_constraints = list(saved) + list(p)
                try:
                    r = super().solve()
                finally:
                    self.converted_constraints = saved
                if r:
                    self.prev = {v.id: v.sol for v in self.variables}
                    return True
            return False
    Steered.__name__ = "Steered_" + mode
    return Steered


ROUTES = ["z3", "z3+timeout", "steer:hi", "steer:lo", "steer:minchange", "steer:maxchange",
          "fake:SugarBackend", "fake:SugarExtendedBackend", "fake:CSugarBackend", "fake:EnigmaCSPBackend", "fake:CspuzCoreBackend"]


def backend_for(route, log=None):
    import cspuz
    # 'z3+timeout': config.solver_timeout is set to a tiny value; the z3 route ignores it by contract (it only bounds the
    # external subprocess of the sugar back ends), so results must stay exact
    cspuz.config.solver_timeout = 1e-6 if route == "z3+timeout" else None
    if route in ("z3", "z3+timeout"):
        base = Z3Backend
    elif route.startswith("steer:"):
        base = steered(route[6:])
    else:
        base = sugartext.fake_backend(route[5:])
    if log is None:
        return "z3" if route in ("z3", "z3+timeout") else base

    class Rec(base):
        """records the sequence of models the oracle hands to Solver.solve (for deterministic replay)"""
        _outer = True

        def solve(self):
            r = super().solve()
            if type(self)._outer:
                log.append([v.sol for v in self.variables] if r else None)
            return r
    Rec.__name__ = "Rec_" + base.__name__
    return Rec


class Scripted:
    """replay oracle: hands out a recorded sequence of models, each verified (plain Python) to satisfy everything posted"""
    script = []
    illegal = False

    def __init__(self, variables):
        self.variables = variables
        self.constraints = []
        type(self).pos = getattr(type(self), "pos", 0)

    def add_constraint(self, c):
        self.constraints += c if isinstance(c, list) else [c]

    def solve_irrefutably(self, is_answer_key):
        raise NotImplementedError

    def _first_model(self):
        ranges = [(False, True) if isinstance(v, BoolVar) else range(v.lo, v.hi + 1) for v in self.variables]
        for combo in itertools.product(*ranges):
            a = {id(v): x for v, x in zip(self.variables, combo)}
            if all(ref.pyeval(c, a) for c in self.constraints):
                return list(combo)
        return None

    def solve(self):
        cls = type(self)
        if cls.pos < len(cls.script):
            m = cls.script[cls.pos]
            cls.pos += 1
            truth = self._first_model()
            if m is None:
                if truth is not None:
                    cls.illegal = True
                    m = truth
            else:
                a = {id(v): x for v, x in zip(self.variables, m)}
                if not all(ref.pyeval(c, a) for c in self.constraints):
                    cls.illegal = True
                    m = truth
        else:
            m = self._first_model()
        if m is None:
            return False
        for v, x in zip(self.variables, m):
            v.sol = x
        return True


# --- programs ------------------------------------------------------------------------------------------------
def _set_constraint(vs, tuples):
    alts = []
    for tup in tuples:
        lits = [(v if val else ~v) if isinstance(v, BoolVar) else (v == val) for v, val in zip(vs, tup)]
        a = lits[0]
        for l in lits[1:]:
            a = a & l
        alts.append(a)
    c = alts[0]
    for a in alts[1:]:
        c = c | a
    return c


def build(p, between=None):
    """p: {kind:'set'|'tree', vars:[('b',)|('i',lo,hi)], keys:[idx], ...} -> (solver, variables).
    With p['pre_set'] (a non-empty solution set posted first, keys registered first) `between(solver)` runs before the program's
    own constraints are posted: a history solve / ensure / solve on one Solver; the meaning is the conjunction."""
    s = Solver()
    vs = []
    for d in p["vars"]:
        vs.append(s.bool_var() if d[0] == "b" else s.int_var(d[1], d[2]))
    if p.get("pre_set"):
        s.ensure(_set_constraint(vs, p["pre_set"]))
        for k in p["keys"]:
            s.add_answer_key(vs[k])
        if between is not None:
            between(s)
    if p["kind"] == "set":
        alts = []
        for tup in p["set"]:
            lits = []
            for v, val in zip(vs, tup):
                lits.append((v if val else ~v) if isinstance(v, BoolVar) else (v == val))
            a = lits[0]
            for l in lits[1:]:
                a = a & l
            alts.append(a)
        if alts:
            c = alts[0]
            for a in alts[1:]:
                c = c | a
            s.ensure(c)
        else:
            s.ensure(vs[0] if isinstance(vs[0], BoolVar) else (vs[0] > vs[0]), ~vs[0] if isinstance(vs[0], BoolVar) else True)
    else:
        bv = [v for v in vs if isinstance(v, BoolVar)]
        iv = [v for v in vs if isinstance(v, IntVar)]
        for t in p["steps"]:
            try:
                s.ensure(trees.mk(t, bv, iv))
            except trees.Unbuildable:
                pass
    if not p.get("pre_set"):
        for k in p["keys"]:
            s.add_answer_key(vs[k])
    return s, vs


def reference_formula(p, vs, env):
    """the documented meaning of the *description* of the program (independent of the trees the library built)"""
    zs = [env.z(v) for v in vs]
    if p["kind"] == "set":
        alts = [z3.And([(z == (z3.BoolVal(val) if isinstance(v, BoolVar) else z3.IntVal(val))) for v, z, val in zip(vs, zs, tup)]) for tup in p["set"]]
        body = z3.Or(alts) if alts else z3.BoolVal(False)
    else:
        zb = [z for v, z in zip(vs, zs) if isinstance(v, BoolVar)]
        zi = [z for v, z in zip(vs, zs) if isinstance(v, IntVar)]
        body = z3.And([trees.ref_desc(t, zb, zi) for t in p["steps"] if trees.buildable(t)] or [z3.BoolVal(True)])
    if p.get("pre_set"):
        body = z3.And(body, z3.Or([z3.And([(z == (z3.BoolVal(val) if isinstance(v, BoolVar) else z3.IntVal(val))) for v, z, val in zip(vs, zs, tup)])
                                   for tup in p["pre_set"]]))
    dom = [z3.And(z >= d[1], z <= d[2]) for z, d in zip(zs, p["vars"]) if d[0] == "i"]     # declared domains (program text)
    return z3.And(z3.And(dom) if dom else z3.BoolVal(True), body)


def holds(p, vs, combo):
    if p.get("pre_set") and tuple(combo) not in set(tuple(t) for t in p["pre_set"]):
        return False
    if p["kind"] == "set":
        return tuple(combo) in set(tuple(t) for t in p["set"])
    vb = [x for v, x in zip(vs, combo) if isinstance(v, BoolVar)]
    vi = [x for v, x in zip(vs, combo) if isinstance(v, IntVar)]
    return all(trees.py_desc(t, vb, vi) for t in p["steps"] if trees.buildable(t))


def exact_facts_bruteforce(p, vs):
    ranges = [(False, True) if d[0] == "b" else range(d[1], d[2] + 1) for d in p["vars"]]
    sols = []
    for combo in itertools.product(*ranges):
        if holds(p, vs, combo):
            sols.append(combo)
    if not sols:
        return False, None
    facts = []
    for i in range(len(vs)):
        vals = set(c[i] for c in sols)
        facts.append(next(iter(vals)) if len(vals) == 1 else None)
    return True, facts


LAST_LOG = []


def check_one(p, route):
    """returns (issue or None, n_queries, solver_s)"""
    with warnings.catch_warnings():
        warnings.simplefilter("ignore")
        log = []
        # solve/ensure/solve histories run every solve of the session on one and the same back-end class (what a caller who
        # passes backend="z3" twice gets); the recorded script then covers the whole session
        session_be = backend_for(route, log) if p.get("pre_set") else None
        try:
            s, vs = build(p, between=lambda s1: [s1.solve(backend=session_be) for _ in range(p.get("pre_solves", 1))])
        except Exception as e:
            return {"kind": "exception", "detail": "first phase: %s: %s" % (type(e).__name__, str(e)[:200])}, 0, 0.0
        if not p.get("pre_set"):
            for v in vs:
                v.sol = None
        try:
            if p.get("pre_find"):
                # history: find_answer() on the same Solver first; the values it leaves in .sol must not survive as 'facts'
                s.find_answer(backend=backend_for(route, []))
            if p.get("keys2"):
                # history: a first solve, then more answer keys are registered on the same Solver, then the solve that is checked
                s.solve(backend=backend_for(route, []))
                for k in p["keys2"]:
                    s.add_answer_key(vs[k])
            ret = s.solve(backend=session_be or backend_for(route, log))
        except Exception as e:
            return {"kind": "exception", "detail": "%s: %s" % (type(e).__name__, str(e)[:200])}, 0, 0.0
    LAST_LOG[:] = log
    allkeys = list(p["keys"]) + list(p.get("keys2") or [])
    env = ref.Env(prefix="")
    R = reference_formula(p, vs, env)
    q = z3.Solver()
    q.set("timeout", 20000)
    q.add(R)
    nq, t0 = 1, time.time()
    v = str(q.check())
    if v not in ("sat", "unsat"):
        return {"kind": "inconclusive", "detail": v}, nq, time.time() - t0
    if ret is not True and ret is not False:
        return {"kind": "verdict", "detail": "solve returned %r" % (ret,)}, nq, time.time() - t0
    if ret != (v == "sat"):
        return {"kind": "verdict", "detail": "solve()=%r but the constraints are %s" % (ret, v)}, nq, time.time() - t0
    if ret:
        m = q.model()
        for k in allkeys:
            var = vs[k]
            zv = env.z(var)
            val = var.sol
            if val is None:
                mv = m.eval(zv, model_completion=True)
                q.push()
                q.add(zv != mv)
                r2 = str(q.check())
                q.pop()
                nq += 1
                if r2 == "unsat":
                    return {"kind": "missed-fact", "detail": "key #%d reported None but every solution has %s" % (k, mv)}, nq, time.time() - t0
                if r2 != "sat":
                    return {"kind": "inconclusive", "detail": r2}, nq, time.time() - t0
            else:
                if isinstance(var, BoolVar):
                    if type(val) is not bool:
                        return {"kind": "type", "detail": "bool key #%d has sol %r" % (k, val)}, nq, time.time() - t0
                    zval = z3.BoolVal(val)
                else:
                    if type(val) is not int:
                        return {"kind": "type", "detail": "int key #%d has sol %r" % (k, val)}, nq, time.time() - t0
                    zval = z3.IntVal(val)
                q.push()
                q.add(zv != zval)
                r2 = str(q.check())
                q.pop()
                nq += 1
                if r2 == "sat":
                    return {"kind": "wrong-fact", "detail": "key #%d reported %r but a solution with another value exists" % (k, val)}, nq, time.time() - t0
                if r2 != "unsat":
                    return {"kind": "inconclusive", "detail": r2}, nq, time.time() - t0
    return None, nq, time.time() - t0


def _worker(chunk):
    out = []
    for p, route in chunk:
        try:
            issue, nq, dt = check_one(p, route)
        except Exception:
            issue, nq, dt = {"kind": "harness", "detail": traceback.format_exc()[-1500:]}, 0, 0.0
        if issue is not None:
            issue["script"] = list(LAST_LOG)
        out.append((p, route, issue, nq, dt))
    return out


def to_json(p):
    q = dict(p)
    if "steps" in q:
        q["steps"] = [trees.to_json(t) for t in q["steps"]]
    return q


def from_json(q):
    p = dict(q)
    if "steps" in p:
        p["steps"] = [trees.from_json(t) for t in p["steps"]]
    p["vars"] = [tuple(v) for v in p["vars"]]
    if "set" in p:
        p["set"] = [tuple(t) for t in p["set"]]
    return p


def replay(payload, verbose=False):
    if _replay_once(payload, verbose, scripted=True):
        return True
    # the recorded model sequence only drives Solver.solve's own logic; a defect that lives in a back end's handling of the
    # sequence (e.g. what it leaves in sol after an unsatisfiable reply) needs the original route
    return _replay_once(payload, verbose, scripted=False)


def _replay_once(payload, verbose, scripted):
    p = from_json(payload["program"])
    route = payload["route"]
    native = route.startswith("fake:") and route != "fake:SugarBackend"
    if native or not payload.get("script") or not scripted:
        be = backend_for(route, []) if p.get("pre_set") else backend_for(route)
    else:
        # deterministic: the oracle hands out the recorded (and re-verified) sequence of models
        class be(Scripted):
            script = payload["script"]
            pos = 0
            illegal = False
    with warnings.catch_warnings():
        warnings.simplefilter("ignore")
        try:
            s, vs = build(p, between=lambda s1: [s1.solve(backend=be) for _ in range(p.get("pre_solves", 1))])
        except Exception as e:
            if verbose:
                print("first phase raised", type(e).__name__, e)
            return True
    sat, facts = exact_facts_bruteforce(p, vs)
    with warnings.catch_warnings():
        warnings.simplefilter("ignore")
        try:
            if p.get("pre_find"):
                s.find_answer(backend=backend_for(route))
            if p.get("keys2"):
                s.solve(backend=backend_for(route))
                for k in p["keys2"]:
                    s.add_answer_key(vs[k])
            ret = s.solve(backend=be)
        except Exception as e:
            if verbose:
                print("raised", type(e).__name__, e)
            return True
    allkeys = list(p["keys"]) + list(p.get("keys2") or [])
    got = [vs[k].sol for k in allkeys]
    want = [facts[k] for k in allkeys] if sat else None
    if verbose:
        print("route=%s solve()=%r keys=%r reported=%r exact(brute force)=%r" % (route, ret, allkeys, got, want))
    if ret != sat:
        return True
    if sat and any(type(g) is not type(w) or g != w for g, w in zip(got, want)):
        return True
    return False


def programs(tier, rng):
    out = []
    cube = list(itertools.product((False, True), repeat=3))
    key_subsets3 = [[], [0], [1], [2], [0, 1], [0, 2], [1, 2], [0, 1, 2]]
    masks = range(0, 256)
    for mask in masks:
        S = [cube[i] for i in range(8) if mask >> i & 1]
        for keys in (key_subsets3 if tier == "thorough" else [key_subsets3[mask % 8], [0, 1, 2]]):
            out.append({"kind": "set", "vars": [("b",)] * 3, "set": S, "keys": keys})
    sq = list(itertools.product((0, 1, 2), repeat=2))
    for mask in range(0, 512, 1 if tier == "thorough" else 3):
        S = [sq[i] for i in range(9) if mask >> i & 1]
        for keys in ([[0, 1], [0], [1], []] if tier == "thorough" else [[0, 1], [mask % 2]]):
            out.append({"kind": "set", "vars": [("i", 0, 2), ("i", 0, 2)], "set": S, "keys": keys})
    # values outside CPython's small-int cache (identity vs equality slips), shifted copies of {0,1,2}^2
    for mask in range(1, 512, 7 if tier == "quick" else 2):
        S = [(1000 + sq[i][0], -300 - sq[i][1]) for i in range(9) if mask >> i & 1]
        out.append({"kind": "set", "vars": [("i", 1000, 1002), ("i", -302, -300)], "set": S, "keys": [[0, 1], [0], [1]][mask % 3]})
    # two-phase sessions: keys registered after a first solve
    for mask in range(1, 256, 5 if tier == "quick" else 1):
        S = [cube[i] for i in range(8) if mask >> i & 1]
        k1 = [[0], [1], [], [0, 1]][mask % 4]
        k2 = [k for k in (0, 1, 2) if k not in k1][: 1 + mask % 2]
        out.append({"kind": "set", "vars": [("b",)] * 3, "set": S, "keys": k1, "keys2": k2})
    # solve / ensure / solve on one Solver: a first solution set (often one that decides no key at all), a solve, then the
    # program's own constraints, then the solve that is checked against the conjunction
    for i, mask1 in enumerate([255, 255, 0b01101001, 0b10010110, 0b11110000, 0b00111100, 0b11000011, 0b10000001] + list(range(3, 256, 23 if tier == "quick" else 3))):
        S1 = [cube[j] for j in range(8) if mask1 >> j & 1]
        for mask2 in ([0b10111111, 0b11110101, 0b00001111, 0b00000110, (37 * i + 11) % 256, 255] if tier == "quick" else range(0, 256, 5)):
            S2 = [cube[j] for j in range(8) if mask2 >> j & 1]
            out.append({"kind": "set", "vars": [("b",)] * 3, "set": S2, "keys": key_subsets3[1 + (i + mask2) % 7], "pre_set": S1, "pre_solves": 1 + (i + mask2) % 2})
    for k in range(60 if tier == "quick" else 600):
        steps = [trees.as_constraint(rng, trees.random_tree(rng, rng.choice("BI"), rng.randint(1, 2))) for _ in range(rng.randint(1, 2))]
        box = list(itertools.product((False, True), (-1, 0, 1), (False, True), (0, 1, 2)))
        S1 = box if k % 2 == 0 else [t for t in box if rng.random() < 0.7] or box
        out.append({"kind": "tree", "vars": [("b",), ("i", -1, 1), ("b",), ("i", 0, 2)], "steps": steps, "keys": [[0, 1, 2, 3], [0, 3], [1, 2]][k % 3], "pre_set": S1})
    mix = list(itertools.product((False, True), (-1, 0, 1)))
    for mask in range(0, 64):
        S = [mix[i] for i in range(6) if mask >> i & 1]
        for keys in [[0, 1], [0], [1]]:
            out.append({"kind": "set", "vars": [("b",), ("i", -1, 1)], "set": S, "keys": keys})
    for k in range(400 if tier == "quick" else 4000):
        steps = [trees.as_constraint(rng, trees.random_tree(rng, rng.choice("BI"), rng.randint(1, 3))) for _ in range(rng.randint(1, 3))]
        keys = [i for i in range(4) if rng.random() < 0.6]
        out.append({"kind": "tree", "vars": [("b",), ("i", -2, 2), ("b",), ("i", 0, 3)], "steps": steps, "keys": keys})
    # answer keys that no constraint mentions (a one-value domain is still a fact; a free boolean is not)
    for k in range(60 if tier == "quick" else 400):
        steps = [trees.as_constraint(rng, trees.random_tree(rng, rng.choice("BI"), rng.randint(1, 2))) for _ in range(rng.randint(0, 2))]
        keys = sorted(set([4, 5, 6][: 1 + k % 3] + [i for i in range(4) if rng.random() < 0.4]))
        out.append({"kind": "tree", "vars": [("b",), ("i", -2, 2), ("b",), ("i", 0, 3), ("i", 4 + k % 2, 4 + k % 2), ("b",), ("i", -7, -6 - k % 2)],
                    "steps": steps, "keys": keys})
    # find_answer() first, then solve() on the same Solver
    for mask in range(1, 256, 3 if tier == "quick" else 1):
        S = [cube[i] for i in range(8) if mask >> i & 1]
        out.append({"kind": "set", "vars": [("b",)] * 3, "set": S, "keys": [[0, 1, 2], [0, 2], [1]][mask % 3], "pre_find": True})
    for mask in range(1, 512, 5 if tier == "quick" else 1):
        S = [sq[i] for i in range(9) if mask >> i & 1]
        out.append({"kind": "set", "vars": [("i", 0, 2), ("i", 0, 2)], "set": S, "keys": [[0, 1], [0], [1]][mask % 3], "pre_find": True})
    return out


def run(tier, only=None):
    rep = common.Report("C02", tier, "translation_validation", FILES)
    rng = random.Random(common.seed())
    progs = programs(tier, rng)
    tasks = []
    for i, p in enumerate(progs):
        if tier == "thorough":
            routes = ROUTES
        else:
            routes = ["z3", ROUTES[2 + i % 4], ROUTES[6 + i % 5]] + (["z3+timeout"] if i % 4 == 0 else [])
        for r in routes:
            if only and only not in r:
                continue
            tasks.append((p, r))
    jobs = common.ncores()
    chunks = [tasks[i::jobs * 4] for i in range(jobs * 4)]
    ctx = mp.get_context("fork")
    results = []
    with ctx.Pool(jobs) as pool:
        for r in pool.imap_unordered(_worker, [c for c in chunks if c]):
            results += r
    by_route = {}
    for p, route, issue, nq, dt in results:
        rep.programs += 1
        rep.evaluations += 1
        rep.count_query("exactness", dt, nq)
        by_route[route] = by_route.get(route, 0) + 1
        pj = to_json(p)
        if issue is None:
            rep.ok()
            rep.distinct.add((repr(pj), route))
            if rep.programs % 900 == 1:
                rep.sample({"program": pj, "route": route})
            continue
        if issue["kind"] == "harness":
            rep.harness_error(issue["detail"])
        elif issue["kind"] == "inconclusive":
            rep.inconc("%s %s" % (route, issue["detail"]))
        else:
            payload = {"program": pj, "route": route, "script": issue.get("script")}
            rep.counterexample("%s,%s" % (issue["kind"], "native" if route.startswith("fake:") and "SugarBackend" != route[5:] else "refine"),
                               "%s via %s on %s keys=%r: %s" % (issue["kind"], route, pj.get("set", pj.get("steps")), p["keys"], issue["detail"]),
                               payload, replay(payload))
    rep.extra["runs_by_route"] = by_route
    rep.functions = ["cspuz.solver.Solver.solve (refinement loop)", "Solver.add_answer_key", "cspuz.backend.z3.Z3Backend",
                     "cspuz.backend.sugar_like.SugarLikeBackend.solve / solve_irrefutably / add_constraint (all five subclasses)"]
    rep.bounds = {"programs": "every solution set over 3 booleans (256), over {0,1,2}^2 (512%s), over bool x {-1,0,1} (64); %d random "
                  "tree programs over 2 bools + 2 ints" % ("" if tier == "thorough" else ", every 3rd in quick", 400 if tier == "quick" else 4000),
                  "solve/ensure/solve": "a first solution set posted and solved once or twice (often deciding no key), then the program's own constraints, then the checked solve; reference = the conjunction",
                  "answer keys": "all subsets (thorough) / a rotating subset + all (quick); two-phase sessions (solve, add_answer_key, solve)",
                  "routes": ROUTES, "oracle orders": "z3's own, and 4 steered real-Z3 back ends (prefer hi / lo / minimal change / maximal change), "
                  "native deduction mode served by an exact text-protocol solver"}
    rep.outside = ["arbitrary model orders beyond the steered ones", "the real Sugar / csugar / cspuz_core binaries (not installable offline)"]
    rep.assumptions = ["reference translator; z3 sound", "vlib/ea/sugartext.py answers the text protocol as a correct external solver would "
                       "(formats per sugar_extension/CspuzSugarInterface.java)"]
    return rep.finish("The real Solver.solve() runs against each route; exactness is then decided per answer key by z3 on the reference formula: "
                      "a reported value v must be forced (R & k!=v unsat), a reported None must be genuinely ambiguous (R & k!=model(k) sat), "
                      "and the return value must equal satisfiability of R. Counterexamples are replayed against brute-force enumeration.")
