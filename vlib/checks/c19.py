"""C19 - generation soundness and the deterministic PRNG (Engine C: AST->z3 for the PRNG kernels; Engine B: CrossHair)."""
import os
import time

import z3

import cspuz.generator.deterministic_random as D

from .. import common
from ..eb import runner
from ..ec import translate as T

FILES = ["cspuz/generator/core.py", "cspuz/generator/builder.py", "cspuz/generator/srandom.py",
         "cspuz/generator/deterministic_random.py", "cspuz/generator/segmentation.py"]
HF = os.path.join(common.VERIF, "vlib", "eb", "harness", "h_c19.py")
TWO32 = 1 << 32


class Feed:
    """scripted 32-bit stream: the given draws, then zeros (0 is accepted by every range, so no loop can spin on it)"""

    def __init__(self, draws):
        self.draws, self.i = list(draws), 0

    def next(self):
        d = self.draws[self.i] if self.i < len(self.draws) else 0
        self.i += 1
        return d


def _q(rep, name, formulas, timeout=60000):
    """one SMT query that must be unsat; returns (verdict, model or None)"""
    s = z3.Solver()
    s.set("timeout", timeout)
    s.add(*formulas)
    t0 = time.time()
    v = str(s.check())
    rep.count_query("smt:%s" % v, time.time() - t0)
    rep.evaluations += 1
    return v, (s.model() if v == "sat" else None)


def engine_c(rep):
    bv = lambda n: z3.BitVec(n, 64)   # noqa: E731
    lim = z3.BitVecVal(TWO32, 64)
    # ---- XorShift.__init__ -------------------------------------------------------------------------------------
    seed = bv("seed")
    tr = T.Translator(D.XorShift.__init__, "bv64", {"seed": seed})
    paths = tr.run()
    if len(paths) != 1 or paths[0].kind != "fallthrough":
        raise T.Unsupported("unexpected path structure in XorShift.__init__")
    st0 = paths[0].state
    attrs = ["self._x", "self._y", "self._z", "self._w"]
    if sorted(k for k in st0 if k.startswith("self.")) != sorted(attrs):
        raise T.Unsupported("XorShift state is not (_x,_y,_z,_w): %r" % sorted(st0))
    v, m = _q(rep, "init-range", [z3.Or([z3.Not(z3.ULT(st0[a], lim)) for a in attrs])])
    _settle(rep, "xorshift-init", "XorShift(seed) leaves a state component outside [0, 2^32)", v, m,
            lambda m: _replay_init(m.eval(seed, model_completion=True).as_signed_long()))
    for d, c in paths[0].obligations:
        v, m = _q(rep, "init-obl", [paths[0].cond, z3.Not(c)])
        _settle(rep, "xorshift-init-obligation", d, v, m, lambda m: False)
    # ---- XorShift.next --------------------------------------------------------------------------------------------
    x, y, z, w = bv("x"), bv("y"), bv("z"), bv("w")
    inv = z3.And(z3.ULT(x, lim), z3.ULT(y, lim), z3.ULT(z, lim), z3.ULT(w, lim))
    tr = T.Translator(D.XorShift.next, "bv64", {"self._x": x, "self._y": y, "self._z": z, "self._w": w})
    paths = tr.run()
    if len(paths) != 1 or paths[0].kind != "return":
        raise T.Unsupported("unexpected path structure in XorShift.next")
    p = paths[0]
    st1 = p.state
    x32, w32 = z3.Extract(31, 0, x), z3.Extract(31, 0, w)
    t32 = x32 ^ (x32 << 11)
    ref_w = z3.ZeroExt(32, (w32 ^ z3.LShR(w32, 19)) ^ (t32 ^ z3.LShR(t32, 8)))       # Marsaglia's xorshift128 step
    bad = z3.Or(z3.Not(z3.ULT(st1["self._w"], lim)), st1["self._x"] != y, st1["self._y"] != z, st1["self._z"] != w,
                p.value != st1["self._w"], st1["self._w"] != ref_w)
    v, m = _q(rep, "next", [inv, bad])
    _settle(rep, "xorshift-next", "XorShift.next breaks the state invariant / shift / reference xorshift128 step", v, m,
            lambda m: _replay_next(*[m.eval(t, model_completion=True).as_long() for t in (x, y, z, w)]))
    for d, c in p.obligations:
        v, m = _q(rep, "next-obl", [inv, p.cond, z3.Not(c)])
        _settle(rep, "xorshift-next-obligation", d, v, m, lambda m: False)
    # ---- randint ----------------------------------------------------------------------------------------------------
    a, b = z3.Int("a"), z3.Int("b")
    draws = {}

    def fresh(k):
        draws[k] = z3.Int("x%d" % k)
        return draws[k]
    tr = T.Translator(D.randint, "int", {"a": a, "b": b}, calls={"_rng.next": fresh}, unroll=2,
                      consts={"_XORSHIFT_DOMAIN_SIZE": D._XORSHIFT_DOMAIN_SIZE})
    paths = tr.run()
    rep.extra["randint_paths"] = ["%s" % p.kind for p in paths]
    dom = z3.And([z3.And(d >= 0, d < TWO32) for d in draws.values()]) if draws else z3.BoolVal(True)
    wz = b - a + 1
    spec_raise = z3.Or(a > b, wz > TWO32)
    limit = TWO32 - TWO32 % wz
    raises = [p for p in paths if p.kind.startswith("raise:")]
    returns = [p for p in paths if p.kind == "return"]
    unw = [p for p in paths if p.kind == "unwind"]
    if any(p.kind not in ("raise:ValueError", "return", "unwind") for p in paths) or not returns:
        raise T.Unsupported("unexpected outcome kinds in randint: %r" % [p.kind for p in paths])

    def rp(m):
        av, bvv = m.eval(a, model_completion=True).as_long(), m.eval(b, model_completion=True).as_long()
        ds = [m.eval(draws[k], model_completion=True).as_long() for k in sorted(draws)]
        return _replay_randint(av, bvv, ds)
    v, m = _q(rep, "randint-raise-sound", [dom, z3.Or([p.cond for p in raises]), z3.Not(spec_raise)])
    _settle(rep, "randint-raise", "randint raises ValueError on a valid range", v, m, rp)
    v, m = _q(rep, "randint-raise-complete", [dom, spec_raise, z3.Or([p.cond for p in returns + unw])])
    _settle(rep, "randint-raise", "randint accepts an invalid range (a > b or more than 2^32 values)", v, m, rp)
    # observable reference: the value randint must return for the stream x1, x2, 0, 0, ... (first draw below the limit wins)
    ds = [draws[k] for k in sorted(draws)]
    exp_seq = a + 0
    for xk in reversed(ds):
        exp_seq = z3.If(xk < limit, a + xk % wz, exp_seq)
    for i, p in enumerate(returns):
        v, m = _q(rep, "randint-range-%d" % i, [dom, p.cond, z3.Not(z3.And(a <= p.value, p.value <= b))])
        _settle(rep, "randint-range", "randint(a, b) returns a value outside [a, b]", v, m, rp)
        v, m = _q(rep, "randint-value-%d" % i, [dom, p.cond, z3.Not(spec_raise), p.value != exp_seq])
        _settle(rep, "randint-value", "randint does not return a + (first draw below the limit) mod width", v, m, rp)
        for d, c in p.obligations:
            v, m = _q(rep, "randint-obl", [dom, p.cond, z3.Not(c)])
            _settle(rep, "randint-obligation", d, v, m, lambda m: False)
    # first accepted draw is used at once (no draw wasted): not raising and x1 < limit  =>  the first return path is taken
    if not draws:
        rep.counterexample("randint-value", "randint never draws from the generator", {"engine": "C", "what": "randint-value"}, True)
        return
    first = returns[0]
    k1 = sorted(draws)[0]
    v, m = _q(rep, "randint-first", [dom, z3.Not(spec_raise), draws[k1] < limit, z3.Not(first.cond)])
    _settle(rep, "randint-value", "an acceptable first draw is not used", v, m, rp)
    for p in unw:
        v, m = _q(rep, "randint-unwind", [dom, p.cond, z3.Not(z3.And([draws[k] >= limit for k in sorted(draws)]))])
        _settle(rep, "randint-value", "the loop continues although a draw was acceptable", v, m, rp)
    # arithmetic lemma behind uniformity: the acceptance window is a whole number of cycles and is not empty
    ww = z3.Int("ww")
    lim2 = TWO32 - TWO32 % ww
    v, m = _q(rep, "limit-lemma", [ww >= 1, ww <= TWO32, z3.Not(z3.And(lim2 % ww == 0, lim2 >= ww, lim2 <= TWO32))])
    _settle(rep, "limit-lemma", "2^32 - 2^32 mod w is not a positive multiple of w", v, m, lambda m: True)
    # random(): float(x) / 2^32 in [0, 1) for every 32-bit draw (IEEE double, exact conversion)
    xb = z3.BitVec("xr", 32)
    fx = z3.fpToFPUnsigned(z3.RNE(), xb, z3.Float64()) if hasattr(z3, "fpToFPUnsigned") else z3.fpUnsignedToFP(z3.RNE(), xb, z3.Float64())
    q = z3.fpDiv(z3.RNE(), fx, z3.FPVal(float(TWO32), z3.Float64()))
    v, m = _q(rep, "random-range", [z3.Not(z3.And(z3.fpGEQ(q, z3.FPVal(0.0, z3.Float64())), z3.fpLT(q, z3.FPVal(1.0, z3.Float64()))))], timeout=240000)
    _settle(rep, "random-range", "float(x)/2^32 leaves [0,1) for a 32-bit x", v, m, lambda m: not (0.0 <= float(m.eval(xb).as_long()) / TWO32 < 1.0))
    # ... and the real random() is that expression on the next draw (source-level check through the translator is not possible:
    # float arithmetic); compared concretely on the boundary draws
    for xv in (0, 1, TWO32 - 1, TWO32 // 2, 12345):
        D._rng = Feed([xv])
        r = D.random()
        rep.finite_tables += 1
        if r != float(xv) / TWO32 or not (0.0 <= r < 1.0):
            rep.counterexample("random-value", "random() with draw %d returned %r" % (xv, r), {"engine": "C", "what": "random", "x": xv}, True)
    D.seed(0)


def _settle(rep, key, text, verdict, model, replay_fn):
    if verdict == "unsat":
        rep.ok()
        rep.distinct.add(key + text)
    elif verdict == "sat":
        try:
            ok = bool(replay_fn(model))
        except Exception as e:
            ok = True
            text += " (replay raised %s)" % type(e).__name__
        rep.counterexample(key, "%s; model: %s" % (text, str(model)[:200]), {"engine": "C", "what": key, "model": str(model)}, ok)
    else:
        rep.inconc("%s: %s" % (key, verdict))


def _replay_init(seed):
    g = D.XorShift(seed)
    return not all(0 <= v < TWO32 for v in (g._x, g._y, g._z, g._w))


def _replay_next(x, y, z, w):
    g = D.XorShift(0)
    g._x, g._y, g._z, g._w = x, y, z, w
    r = g.next()
    t = (x ^ (x << 11)) & 0xFFFFFFFF
    want = ((w ^ (w >> 19)) ^ (t ^ (t >> 8))) & 0xFFFFFFFF
    return not (r == want == g._w and (g._x, g._y, g._z) == (y, z, w) and 0 <= r < TWO32)


def _replay_randint(a, b, draws):
    saved = D._rng
    D._rng = Feed(draws)
    try:
        try:
            r = D.randint(a, b)
        except ValueError:
            return not (a > b or b - a + 1 > TWO32)
        if a > b or b - a + 1 > TWO32:
            return True
        wdt = b - a + 1
        limit = TWO32 - TWO32 % wdt
        acc = [d for d in list(draws) + [0] if d < limit]
        return r != a + acc[0] % wdt or not (a <= r <= b)
    finally:
        D._rng = saved


_HASHSEED_SCRIPT = r"""
import sys
sys.path.insert(0, sys.argv[1])
from cspuz.generator import Choice, ArrayBuilder2D, build_neighbor_generator
import cspuz.generator.srandom as srandom
srandom.use_deterministic_prng(True, seed=7)
pat = [Choice(["..", "^1", "v2", "<0", ">3", "??"], default=".."), ArrayBuilder2D(1, 2, ["a", "bb", "c"], default="a")]
ini, gen = build_neighbor_generator(pat)
print(repr(ini)); print(repr(list(gen(ini))))
"""


def table_hashseed(rep):
    """same seed => same candidates in *another interpreter process* with another string-hash randomisation
    (finite table: 4 processes; no solver involved, labelled)"""
    import subprocess
    import sys
    outs = set()
    for hs in ("0", "1", "2", "12345"):
        rep.finite_tables += 1
        env = dict(os.environ)
        env["PYTHONHASHSEED"] = hs
        p = subprocess.run([sys.executable, "-B", "-c", _HASHSEED_SCRIPT, common.REPO], env=env, stdout=subprocess.PIPE, stderr=subprocess.PIPE,
                           text=True, timeout=120)
        outs.add(p.stdout if p.returncode == 0 else "ERROR:" + p.stderr[-300:])
    if len(outs) != 1:
        rep.counterexample("reproducible:across-processes", "the candidate sequence for string-valued builders differs between interpreter "
                           "processes with different PYTHONHASHSEED (same PRNG seed)", {"engine": "table", "what": "hashseed"}, True)


def run(tier, only=None):
    rep = common.Report("C19", tier, "other", FILES)
    try:
        engine_c(rep)
    except T.Unsupported as e:
        rep.harness_error("Engine C cannot encode the current source: %s" % e)
    q = tier == "quick"
    Tm = 100 if q else 400
    conds = [runner.Cond(HF, "h_randint", 2 * Tm, key="randint-value"), runner.Cond(HF, "h_choice", Tm, key="choice"), runner.Cond(HF, "h_choice_empty", Tm, key="choice"),
             runner.Cond(HF, "h_shuffle_injective", 2 * Tm, env={"VERIF_N": "3" if q else "4"}, key="shuffle"),
             runner.Cond(HF, "h_shuffle_draws", Tm, env={"VERIF_N": "4"}, key="shuffle"),
             runner.Cond(HF, "h_neighbors", 3 * Tm, name="h_neighbors[2x2,opt0-1]", env={"VERIF_OPTLO": "0", "VERIF_OPTHI": "1"}, key="neighbors"),
             runner.Cond(HF, "h_neighbors", 3 * Tm, name="h_neighbors[2x2,opt2-3]", env={"VERIF_OPTLO": "2", "VERIF_OPTHI": "3"}, key="neighbors"),
             runner.Cond(HF, "h_neighbors", 3 * Tm, name="h_neighbors[2x2,opt4-5]", env={"VERIF_OPTLO": "4", "VERIF_OPTHI": "5"}, key="neighbors"),
             runner.Cond(HF, "h_neighbors", 3 * Tm, name="h_neighbors[1x3]", env={"VERIF_BH": "1", "VERIF_BW": "3"}, key="neighbors"),
             runner.Cond(HF, "h_neighbors", 3 * Tm, name="h_neighbors[3x1]", env={"VERIF_BH": "3", "VERIF_BW": "1"}, key="neighbors"),
             # boards on which a cell is adjacent to its own point reflection (exactly one even dimension)
             runner.Cond(HF, "h_neighbors", 3 * Tm, name="h_neighbors[1x2]", env={"VERIF_BH": "1", "VERIF_BW": "2"}, key="neighbors"),
             runner.Cond(HF, "h_neighbors", 3 * Tm, name="h_neighbors[2x2,opt2-3,after-other-neighbourhood]",
                         env={"VERIF_OPTLO": "2", "VERIF_OPTHI": "3", "VERIF_PRIORB": "1"}, key="neighbors"),
             runner.Cond(HF, "h_neighbors", 3 * Tm, name="h_neighbors[2x1]", env={"VERIF_BH": "2", "VERIF_BW": "1"}, key="neighbors"),
             # choice values that are equal to, but not the same objects as, the default (run-time ints above the small-int cache, built strings)
             runner.Cond(HF, "h_neighbors", 3 * Tm, name="h_neighbors[1x3,big]", env={"VERIF_BH": "1", "VERIF_BW": "3", "VERIF_CHOICE": "big",
                                                                                      "VERIF_OPTLO": "0", "VERIF_OPTHI": "3"}, key="neighbors"),
             runner.Cond(HF, "h_neighbors", 3 * Tm, name="h_neighbors[2x2,str,opt0-3]", env={"VERIF_CHOICE": "str", "VERIF_OPTLO": "0", "VERIF_OPTHI": "3"},
                         key="neighbors"),
             runner.Cond(HF, "h_generate", 3 * Tm, env={"VERIF_STEPS": "1" if q else "2"}, key="generate_problem")]
    conds.append(runner.Cond(HF, "h_generate_reproducible", 2 * Tm, key="reproducible:generate_problem"))
    for kind in ("choice", "array", "array_move", "nested", "segmentation"):
        conds.append(runner.Cond(HF, "h_reproducible", 2 * Tm, name="h_reproducible[%s]" % kind, env={"VERIF_KIND": kind},
                                 key="reproducible:" + kind))
    if only:
        conds = [c for c in conds if only in c.name]
    runner.run_conditions(rep, conds)
    table_hashseed(rep)
    rep.functions = ["deterministic_random.XorShift.__init__ / next (AST->z3, 64-bit vectors)", "deterministic_random.randint (AST->z3, "
                     "mathematical ints, loop unrolled 2x)", "deterministic_random.choice / shuffle / random", "srandom dispatch",
                     "builder.build_neighbor_generator / Choice / ArrayBuilder2D", "segmentation.SegmentationBuilder2D.initial / candidates "
                     "(reproducibility only)", "core.generate_problem"]
    rep.bounds = {"PRNG kernels": "all seeds with |seed| < 2^63 (only the low 32 bits are used), all states in [0,2^32)^4, all (a, b) in Z^2, all "
                  "32-bit draws; randint's rejection loop unrolled twice (the 'unwind' outcome is proven to require two rejected draws)",
                  "shuffle": "N = %s: injectivity of decision sequences -> permutations (bijection by counting)" % ("3" if q else "4"),
                  "neighbours": "ArrayBuilder2D on 2x2, 1x3, 3x1, 1x2, 2x1, choice set {0,1,2} (also run-time ints 1000..1002 and built strings: equal but not identical to the default), symmetry / disallow_adjacent / use_move combinations, symbolic grid and draws; listed values must be the values found in the copy",
                  "generate_problem": "2 Choice variables, max_steps = %s, symbolic solver / uniqueness / score verdicts and acceptance draws" % ("1" if q else "2"),
                  "reproducibility": "5 patterns (Choice list, symmetric ArrayBuilder2D, use_move, nested tuple/list, SegmentationBuilder2D 1x3); "
                  "Python's global random replaced by two independent symbolic feeds"}
    rep.outside = ["histories longer than 2 steps, boards above 2x2", "bench/generator.py's recorded URLs (need cspuz_core)",
                   "statistical quality of xorshift128 itself (uniformity is relative to uniform 32-bit draws)"]
    rep.assumptions = ["Engine C translator (vlib/ec/translate.py): z3 div/mod = Python // % for positive divisors (side obligations discharged); "
                       "bit-vector results equal Python's unbounded ints when no bit is shifted out (side obligations discharged)",
                       "z3 sound (Int mod by a symbolic divisor, FP division)", "CrossHair soundness for the B conditions"]
    return rep.finish("The PRNG kernels are translated from the current source into SMT (bit-vectors for the xorshift step, compared with "
                      "Marsaglia's xorshift128; mathematical integers for randint with the draw as a fresh symbol per loop iteration) and every "
                      "claim is an unsat query over all seeds/states/draws/(a,b); sat answers are replayed on the real functions with a scripted "
                      "feed. choice/shuffle/neighbour shape/generate_problem/reproducibility are CrossHair harnesses.")


def replay(payload, verbose=False):
    if payload.get("engine") == "B":
        return runner.generic_replay(payload, verbose)
    if payload.get("what") == "hashseed":
        rep = common.Report("C19", "quick", "other", FILES)
        hits = []
        rep.counterexample = lambda key, text, pl, ok: hits.append(key)   # type: ignore
        table_hashseed(rep)
        return bool(hits)
    rep = common.Report("C19", "quick", "other", FILES)
    hits = []
    rep.counterexample = lambda key, text, pl, ok: hits.append((key, ok))   # type: ignore
    engine_c(rep)
    return any(k == payload.get("what") and ok for k, ok in hits)
