"""C16 - puzzle URL codecs round-trip and agree with the puzz.link / pzv format (Engine B: CrossHair + independent pzpr decoder)."""
from .. import common
from ..eb import runner
from ._codec_common import C, H16, validate_models

FILES = ["cspuz/problem_serializer.py", "cspuz/puzzle/util.py", "cspuz/puzzle/nurikabe.py", "cspuz/puzzle/masyu.py", "cspuz/puzzle/slitherlink.py",
         "cspuz/puzzle/sudoku.py", "cspuz/puzzle/nurimisaki.py", "cspuz/puzzle/yajilin.py", "cspuz/puzzle/heyawake.py", "cspuz/puzzle/lits.py",
         "cspuz/puzzle/norinori.py", "cspuz/puzzle/compass.py", "cspuz/puzzle/star_battle.py", "cspuz/puzzle/aquarium.py"]


def conditions(tier):
    q = tier == "quick"
    T = 150 if q else 1200
    cs = []
    gshapes = [(1, 2), (2, 1), (2, 2)] if q else [(1, 1), (1, 2), (2, 1), (1, 3), (2, 2), (2, 3), (3, 2)]
    for codec in ("nurikabe", "sudoku", "nurimisaki", "slitherlink", "masyu"):
        for (h, w) in gshapes:
            if q and h * w == 4 and codec in ("nurikabe", "nurimisaki", "slitherlink"):
                continue
            cs.append(C(H16, codec, "h_grid_codec", h, w, t=T if h * w <= 3 else 3 * T, key="grid-codec:" + codec))
    for codec in ("nurikabe", "sudoku", "nurimisaki", "slitherlink", "masyu"):
        cs.append(C(H16, codec, "h_grid_codec", 1, 2, t=T, VERIF_PRIOR="2,3", key="grid-codec-after-other-size:" + codec))
    cs.append(C(H16, "yajilin", "h_yajilin", 1, 3, t=2 * T, key="yajilin"))
    rshapes = [(1, 3), (2, 2), (3, 1)] if q else [(1, 2), (1, 3), (3, 1), (2, 2), (2, 3), (3, 2)]
    for codec in ("lits", "norinori", "heyawake"):
        for (h, w) in rshapes:
            lmax = 2 if (h * w <= 3 or (h * w == 4 and codec != "heyawake")) else 1
            cs.append(C(H16, codec, "h_rooms_codec", h, w, t=2 * T, VERIF_LMAX=lmax,
                        key="rooms-codec:%s:%s" % (codec, "1xN" if min(h, w) == 1 else "HxW")))
    cs.append(C(H16, "heyawake", "h_rooms_codec", 2, 3, t=2 * T, VERIF_WIDEVALS=1, key="rooms-codec:heyawake:HxW"))
    if q:   # rooms of non-convex shape (U, C, S) need a 2x3 board: cheap for the border-only codecs
        cs.append(C(H16, "lits", "h_rooms_codec", 2, 3, t=2 * T, VERIF_LMAX=1, key="rooms-codec:lits:HxW"))
        cs.append(C(H16, "norinori", "h_rooms_codec", 3, 2, t=2 * T, VERIF_LMAX=1, key="rooms-codec:norinori:HxW"))
    for (h, w) in ([(2, 2), (1, 3)] if q else [(2, 2), (1, 3), (3, 1), (2, 3), (3, 2)]):
        cs.append(C(H16, "legacy", "h_legacy_segmentation", h, w, t=2 * T, VERIF_LMAX=2 if h * w <= 4 else 1, key="legacy-segmentation"))
    cs.append(C(H16, "legacy", "h_legacy_array", t=2 * T, key="legacy-array"))
    for (h, w) in ([(2, 3)] if q else [(2, 3), (3, 2), (1, 2), (2, 2)]):
        cs.append(C(H16, "compass", "h_compass", h, w, t=4 * T, key="compass"))
        cs.append(C(H16, "heyawake", "h_heyawake_rect", h, w, t=T, key="heyawake-rectangular-form"))
    return cs


def run(tier, only=None):
    rep = common.Report("C16", tier, "other", FILES)
    validate_models(rep)
    cs = conditions(tier)
    if only:
        cs = [c for c in cs if only in c.name]
    runner.run_conditions(rep, cs)
    rep.functions = ["serialize_problem_as_url / deserialize_problem_as_url", "serialize_* / deserialize_* of nurikabe, masyu, slitherlink, sudoku, "
                     "nurimisaki, yajilin (YajilinClue), heyawake, lits, norinori", "compass.to_puzz_link_url / parse_puzz_link_url",
                     "star_battle.problem_to_pzv_url", "aquarium.problem_to_url", "util.encode_array / encode_grid_segmentation / "
                     "blocks_to_block_id / _encode_int_or_str"]
    rep.bounds = {"boards": "up to 2x2 (quick) / 2x3, 3x2 (thorough), always including non-square boards; each grid codec also after a 2x3 board went through the same module-level codec object",
                  "cells": "each module's clue alphabet; one cell additionally over values needing 1, 2 and 3 hex digits (0,1,9,10,15,16,17,255,256,4095)",
                  "rooms": "symbolic room label per cell (0..2, 0..1 on 6-cell boards); heyawake clue values -1..1 and the wide set",
                  "yajilin": "1x3 board, clue kinds '..', '??', arrow+number 0..20 in all four directions"}
    rep.outside = ["larger boards", "the pzpr sources themselves (vlib/eb/pzpr.py is a transcription of the format and part of the trusted base)"]
    rep.assumptions += ["vlib/eb/pzpr.py decodes number16 / number4 / base-3 triples / 5-bit borders / arrow-numbers as pzpr does",
                        "CrossHair 'Confirmed over all paths' is sound"]
    return rep.finish("CrossHair runs each module's own serialize/deserialize pair on symbolic problems of small non-square boards; the postcondition "
                      "demands the round trip incl. dimensions, the puzz.link field order name/width/height, equality of the body with what an "
                      "independent pzpr decoder reads, and identical text from the legacy helper encoders.")


replay = runner.generic_replay
