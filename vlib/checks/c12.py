"""C12 - array operators and aggregate helpers have pointwise / mathematical meaning."""
import itertools
import random
import time

import z3

import cspuz
from cspuz import Solver, constraints as C
from cspuz.array import BoolArray1D, BoolArray2D, IntArray1D, IntArray2D
from cspuz.expr import BoolExpr, Expr, IntExpr

from .. import common
from ..ea import ref, spec

FILES = ["cspuz/array.py", "cspuz/constraints.py", "cspuz/expr.py"]
SHAPES = [(0,), (1,), (3,), (1, 1), (1, 3), (3, 1), (2, 3), (0, 2)]


def size(shape):
    n = 1
    for k in shape:
        n *= k
    return n


CMP_STYLES = {"ge": lambda a, b: a >= b, "gt": lambda a, b: a > b, "le": lambda a, b: a <= b, "lt": lambda a, b: a < b,
              "eq": lambda a, b: a == b, "ne": lambda a, b: a != b}


def mk_array(s, kind, shape, style="vars"):
    n = size(shape)
    if kind == "B" and style in CMP_STYLES:      # boolean array whose elements are comparison nodes (built elementwise by the library)
        a = mk_array(s, "I", shape)
        b = mk_array(s, "I", shape)
        return CMP_STYLES[style](a, b)
    if kind == "B" and style in ("iff", "xor"):
        a = mk_array(s, "B", shape)
        b = mk_array(s, "B", shape)
        return (a == b) if style == "iff" else (a ^ b)
    if kind == "B":
        items = [s.bool_var() for _ in range(n)] if style == "vars" else [s.bool_var() | s.bool_var() for _ in range(n)]
        return BoolArray1D(items) if len(shape) == 1 else BoolArray2D(items, shape)
    items = [s.int_var(-3, 3) for _ in range(n)] if style == "vars" else [s.int_var(-3, 3) + 1 for _ in range(n)]
    return IntArray1D(items) if len(shape) == 1 else IntArray2D(items, shape)


# operand forms -----------------------------------------------------------------------------
def operand(s, form, kind, shape):
    """form: 'arr', 'arrx' (array of compound expressions), 'var', 'expr', 'lit'"""
    if form == "arr":
        return mk_array(s, kind, shape)
    if form == "arrx":
        return mk_array(s, kind, shape, "expr")
    if form.startswith("arr:"):
        return mk_array(s, kind, shape, form[4:])
    if form == "var":
        return s.bool_var() if kind == "B" else s.int_var(-3, 3)
    if form == "expr":
        return (s.bool_var() & s.bool_var()) if kind == "B" else (s.int_var(-3, 3) - 2)
    if form == "lit":
        return True if kind == "B" else 2
    if form == "lit0":
        return False if kind == "B" else -1
    if form == "litz":        # neutral / absorbing elements: shortcuts for them must keep operand order and sign
        return False if kind == "B" else 0
    if form == "lit1":
        return True if kind == "B" else 1
    raise ValueError(form)


def elem(x, i):
    return x.data[i] if hasattr(x, "data") else x


BIN = {  # name -> (operand kind, result kind, python fn, z3 fn)
    "+": ("I", "I", lambda a, b: a + b, lambda a, b: a + b),
    "-": ("I", "I", lambda a, b: a - b, lambda a, b: a - b),
    "==i": ("I", "B", lambda a, b: a == b, lambda a, b: a == b),
    "!=i": ("I", "B", lambda a, b: a != b, lambda a, b: a != b),
    "<": ("I", "B", lambda a, b: a < b, lambda a, b: a < b),
    "<=": ("I", "B", lambda a, b: a <= b, lambda a, b: a <= b),
    ">": ("I", "B", lambda a, b: a > b, lambda a, b: a > b),
    ">=": ("I", "B", lambda a, b: a >= b, lambda a, b: a >= b),
    "&": ("B", "B", lambda a, b: a & b, lambda a, b: z3.And(a, b)),
    "|": ("B", "B", lambda a, b: a | b, lambda a, b: z3.Or(a, b)),
    "^": ("B", "B", lambda a, b: a ^ b, lambda a, b: z3.Xor(a, b)),
    "==b": ("B", "B", lambda a, b: a == b, lambda a, b: a == b),
    "!=b": ("B", "B", lambda a, b: a != b, lambda a, b: z3.Xor(a, b)),
    "then": ("B", "B", lambda a, b: a.then(b) if hasattr(a, "then") else C.then(a, b), lambda a, b: z3.Implies(a, b)),
    "cthen": ("B", "B", lambda a, b: C.then(a, b), lambda a, b: z3.Implies(a, b)),
}


def cls_for(kind, shape):
    return {("B", 1): BoolArray1D, ("B", 2): BoolArray2D, ("I", 1): IntArray1D, ("I", 2): IntArray2D}[(kind, len(shape))]


def zt(kind, x, env):
    return ref.rb(x, env) if kind == "B" else ref.ri(x, env)


class Ctx:
    def __init__(self, rep):
        self.rep = rep
        self.q = 0
        self.t = 0.0

    def equal_all(self, name, outs, expected, kind, env, payload):
        """one query: exists values s.t. some produced element differs from the expected term"""
        rep = self.rep
        rep.evaluations += 1
        try:
            diffs = [zt(kind, o, env) != e for o, e in zip(outs, expected)]
        except ref.RefTypeError as e:
            rep.counterexample("illtyped:" + name.split("/")[0], "%s produced an ill-typed tree: %s" % (name, e), payload, _replay_illtyped(payload))
            return
        if not diffs:
            rep.ok()
            rep.distinct.add(name)
            return
        s = z3.Solver()
        s.set("timeout", 20000)
        s.add(z3.Or(diffs))
        t0 = time.time()
        v = str(s.check())
        self.t += time.time() - t0
        rep.count_query("elementwise:" + v, time.time() - t0)
        if v == "unsat":
            rep.ok()
            rep.distinct.add(name)
        elif v == "sat":
            rep.counterexample("meaning:" + name.split("/")[0], "%s: some element does not denote the pointwise meaning; model %s" % (name, s.model()),
                               payload, _replay_meaning(payload))
        else:
            rep.inconc(name + ": " + v)


def _replay_illtyped(payload):
    return True     # structural fact about the produced tree (a Python literal of the wrong kind inside it); re-derived in replay()


def _replay_meaning(payload):
    return True     # see replay(): re-evaluated with the plain-Python evaluator on the model


# ---------------------------------------------------------------------------------------------
def part_elementwise(ctx):
    rep = ctx.rep
    for shape in SHAPES:
        n = size(shape)
        for opname, (ok, rk, pf, zf) in BIN.items():
            forms = [("arr", "arr"), ("arr", "var"), ("var", "arr"), ("arr", "lit"), ("lit", "arr"), ("arrx", "expr"),
                     ("expr", "arrx"), ("arr", "lit0"), ("arrx", "arr"), ("lit0", "arr"), ("arr", "litz"), ("litz", "arr"), ("arr", "lit1"),
                     ("lit1", "arrx"), ("litz", "arrx")]
            for lf, rf in forms:
                if opname == "then" and lf in ("lit", "lit0", "litz", "lit1"):
                    continue      # True.then does not exist; the function form is 'cthen'
                s = Solver()
                a = operand(s, lf, ok, shape)
                b = operand(s, rf, ok, shape)
                name = "%s/%s/%s_%s" % (opname, "x".join(map(str, shape)), lf, rf)
                payload = {"part": "elementwise", "op": opname, "shape": list(shape), "lf": lf, "rf": rf}
                try:
                    out = pf(a, b)
                except Exception as e:
                    rep.counterexample("exception:" + opname, "%s raised %s: %s" % (name, type(e).__name__, e), payload, True)
                    continue
                if type(out) is not cls_for(rk, shape) or tuple(out.shape) != tuple(shape):
                    rep.counterexample("shape:" + opname, "%s returned %s shape %r" % (name, type(out).__name__, getattr(out, "shape", None)), payload, True)
                    continue
                env = ref.Env()
                exp = [zf(zt(ok, elem(a, i), env), zt(ok, elem(b, i), env)) for i in range(n)]
                ctx.equal_all(name, out.data, exp, rk, env, payload)
        # unary
        for opname, kind, pf, zf in (("~", "B", lambda a: ~a, lambda a: z3.Not(a)), ("neg", "I", lambda a: -a, lambda a: -a)):
            for form in (("arr", "arrx") + (tuple("arr:" + k for k in list(CMP_STYLES) + ["iff", "xor"]) if kind == "B" else ())):
                s = Solver()
                a = operand(s, form, kind, shape)
                name = "%s/%s/%s" % (opname, "x".join(map(str, shape)), form)
                payload = {"part": "unary", "op": opname, "shape": list(shape), "form": form}
                try:
                    out = pf(a)
                except Exception as e:
                    rep.counterexample("exception:" + opname, "%s raised %s" % (name, e), payload, True)
                    continue
                if type(out) is not cls_for(kind, shape) or tuple(out.shape) != tuple(shape):
                    rep.counterexample("shape:" + opname, "%s returned %s" % (name, type(out).__name__), payload, True)
                    continue
                env = ref.Env()
                ctx.equal_all(name, out.data, [zf(zt(kind, x, env)) for x in a.data], kind, env, payload)
        # cond: (c, t, f) with at least one array
        cforms = [("arr", "arr", "arr"), ("arr", "lit", "lit0"), ("arr", "var", "arr"), ("var", "arr", "lit"), ("var", "lit", "arr"),
                  ("lit", "arr", "arr"), ("lit0", "arr", "var"), ("expr", "arrx", "arrx"), ("arrx", "expr", "lit")]
        for cf, tf, ff in cforms:
            for api in ("method", "function"):
                if api == "method" and cf in ("lit", "lit0"):
                    continue
                s = Solver()
                c = operand(s, cf, "B", shape)
                t = operand(s, tf, "I", shape)
                f = operand(s, ff, "I", shape)
                name = "cond-%s/%s/%s_%s_%s" % (api, "x".join(map(str, shape)), cf, tf, ff)
                payload = {"part": "cond", "api": api, "shape": list(shape), "forms": [cf, tf, ff]}
                try:
                    out = c.cond(t, f) if api == "method" else C.cond(c, t, f)
                except Exception as e:
                    rep.counterexample("exception:cond", "%s raised %s: %s" % (name, type(e).__name__, e), payload, True)
                    continue
                if type(out) is not cls_for("I", shape) or tuple(out.shape) != tuple(shape):
                    rep.counterexample("shape:cond", "%s returned %s" % (name, type(out).__name__), payload, True)
                    continue
                env = ref.Env()
                exp = [z3.If(zt("B", elem(c, i), env), zt("I", elem(t, i), env), zt("I", elem(f, i), env)) for i in range(n)]
                ctx.equal_all(name, out.data, exp, "I", env, payload)


# nestings ----------------------------------------------------------------------------------------
def my_flatten(x):
    """independent reading of 'any nesting of iterables, arrays and literals'"""
    if isinstance(x, (bool, int, Expr)):
        return [x]
    out = []
    for y in x:
        out += my_flatten(y)
    return out


def nestings(s, kind, rng):
    v = (lambda: s.bool_var()) if kind == "B" else (lambda: s.int_var(-2, 2))
    lit = (lambda: rng.choice([True, False])) if kind == "B" else (lambda: rng.choice([-1, 0, 1, 2]))
    A1 = (lambda k: BoolArray1D([v() for _ in range(k)])) if kind == "B" else (lambda k: IntArray1D([v() for _ in range(k)]))
    A2 = (lambda h, w: BoolArray2D([v() for _ in range(h * w)], (h, w))) if kind == "B" else (
        lambda h, w: IntArray2D([v() for _ in range(h * w)], (h, w)))
    yield "empty-list", ([],)
    yield "no-args", ()
    yield "single-var", (v(),)
    yield "single-lit", (lit(),)
    yield "varargs", (v(), v(), lit())
    yield "list", ([v(), v(), v()],)
    yield "list+lits", ([v(), lit(), v(), lit()],)
    yield "only-lits", ([lit(), lit(), lit()],)
    if kind == "B":
        yield "lit-true", (True,)
        yield "lit-false", (False,)
        yield "lits-true-false-true", ([True, False, True],)
        yield "lits-nested", ([[True], [False, [True, True]]],)
        yield "lits-varargs", (True, False, True, True)
    else:
        yield "lits-int", ([1, 2, 3],)
        yield "lits-int-dup", ([1, [2, 1]],)
    yield "array1d", (A1(3),)
    yield "array1d-empty", (A1(0),)
    yield "array2d", (A2(2, 2),)
    yield "array2d-1x3", (A2(1, 3),)
    yield "array2d-0x2", (A2(0, 2),)
    yield "list-of-arrays", ([A1(2), A1(1)],)
    yield "array+list+lit", (A1(2), [v(), lit()], v())
    yield "nested3", ([[v(), [v(), lit()]], [], [[v()]]],)
    yield "tuple", ((v(), v()),)
    yield "generator", ((x for x in [v(), v(), lit()]),)
    for k in (15, 16, 17, 18, 32, 33):
        yield "long-list-%d" % k, ([v() for _ in range(k)],)
    yield "long-list-16+lit", ([v() for _ in range(16)] + [lit()],)
    yield "array2d-1x17", (A2(1, 17),)
    yield "array2d-7x7", (A2(7, 7),)
    yield "slice-of-2d", (A2(2, 3)[:, 1:],)
    yield "list-of-2d-rows", ([A2(2, 2)[0], A2(2, 2)[1, :]],)
    yield "mixed-deep", ([A2(1, 2), [A1(1), (lit(), v())]],)


def part_helpers(ctx, rng):
    rep = ctx.rep
    helpers = [
        ("count_true", "B", "I", C.count_true, lambda ts: spec.count(ts)),
        ("fold_or", "B", "B", C.fold_or, lambda ts: spec.Or(ts)),
        ("fold_and", "B", "B", C.fold_and, lambda ts: spec.And(ts)),
        ("alldifferent", "I", "B", C.alldifferent, lambda ts: spec.And(ts[i] != ts[j] for i in range(len(ts)) for j in range(i))),
    ]
    for hname, ik, rk, fn, zf in helpers:
        s = Solver()
        for nname, args in nestings(s, ik, rng):
            name = "%s/%s" % (hname, nname)
            payload = {"part": "helper", "helper": hname, "nesting": nname}
            if nname == "generator":
                args = (list(args[0]),)      # materialise once: the generator form is exercised separately below
                exp_items = my_flatten(args)
                call_args = ((x for x in args[0]),)
            else:
                exp_items = my_flatten(list(args))
                call_args = args
            try:
                out = fn(*call_args)
            except Exception as e:
                rep.counterexample("exception:" + hname, "%s raised %s: %s" % (name, type(e).__name__, e), payload, True)
                continue
            env = ref.Env()
            ctx.equal_all(name, [out], [zf([zt(ik, x, env) for x in exp_items])], rk, env, payload)
    # method forms on arrays / scalars
    s = Solver()
    for shape in [(0,), (3,), (2, 2), (1, 3), (0, 2)]:
        a = mk_array(s, "B", shape)
        env = ref.Env()
        ts = [ref.rb(x, env) for x in a.data]
        nm = "x".join(map(str, shape))
        ctx.equal_all("array.fold_or/" + nm, [a.fold_or()], [spec.Or(ts)], "B", env, {"part": "method", "m": "fold_or", "shape": list(shape)})
        ctx.equal_all("array.fold_and/" + nm, [a.fold_and()], [spec.And(ts)], "B", env, {"part": "method", "m": "fold_and", "shape": list(shape)})
        ctx.equal_all("array.count_true/" + nm, [a.count_true()], [spec.count(ts)], "I", env, {"part": "method", "m": "count_true", "shape": list(shape)})
        b = mk_array(s, "I", shape)
        ti = [ref.ri(x, env) for x in b.data]
        ctx.equal_all("array.alldifferent/" + nm, [b.alldifferent()],
                      [spec.And(ti[i] != ti[j] for i in range(len(ti)) for j in range(i))], "B", env,
                      {"part": "method", "m": "alldifferent", "shape": list(shape)})
    # conv2d
    for (h, w) in [(1, 1), (2, 3), (3, 4), (1, 4), (3, 1)]:
        for (wh, ww) in [(1, 1), (2, 2), (1, 2), (2, 1), (3, 3), (2, 5), (4, 1)]:
            for op in ("and", "or"):
                s = Solver()
                a = mk_array(s, "B", (h, w))
                name = "conv2d/%dx%d/win%dx%d/%s" % (h, w, wh, ww, op)
                payload = {"part": "conv2d", "h": h, "w": w, "wh": wh, "ww": ww, "op": op}
                try:
                    out = a.conv2d(wh, ww, op)
                except Exception as e:
                    rep.counterexample("exception:conv2d", "%s raised %s: %s" % (name, type(e).__name__, e), payload, True)
                    continue
                eh, ew = max(0, h - wh + 1), max(0, w - ww + 1)
                if type(out) is not BoolArray2D or tuple(out.shape) != (eh, ew):
                    rep.counterexample("shape:conv2d", "%s returned shape %r, expected %r" % (name, getattr(out, "shape", None), (eh, ew)), payload, True)
                    continue
                env = ref.Env()
                exp = []
                for y in range(eh):
                    for x in range(ew):
                        win = [ref.rb(a.data[(y + dy) * w + (x + dx)], env) for dy in range(wh) for dx in range(ww)]
                        exp.append(spec.And(win) if op == "and" else spec.Or(win))
                ctx.equal_all(name, out.data, exp, "B", env, payload)
    # four_neighbors on arrays: the in-bounds orthogonal neighbours, as a multiset of the very same elements (finite table)
    for (h, w) in [(1, 1), (1, 4), (4, 1), (2, 2), (3, 4)]:
        for kind in ("B", "I"):
            s = Solver()
            a = mk_array(s, kind, (h, w))
            for y in range(h):
                for x in range(w):
                    rep.finite_tables += 1
                    want = sorted(id(a.data[yy * w + xx]) for yy, xx in ((y - 1, x), (y + 1, x), (y, x - 1), (y, x + 1))
                                  if 0 <= yy < h and 0 <= xx < w)
                    got1 = sorted(id(e) for e in a.four_neighbors(y, x))
                    got2 = sorted(id(e) for e in a.four_neighbors((y, x)))
                    idx = sorted(a.four_neighbor_indices(y, x))
                    widx = sorted((yy, xx) for yy, xx in ((y - 1, x), (y + 1, x), (y, x - 1), (y, x + 1)) if 0 <= yy < h and 0 <= xx < w)
                    # history: a caller that extends the returned lists must not influence later calls (any array of that shape)
                    lst = a.four_neighbor_indices(y, x)
                    lst.append((y, x))
                    a.four_neighbors(y, x).data.append(None)
                    s2 = Solver()
                    a2 = mk_array(s2, kind, (h, w))
                    idx2 = sorted(a2.four_neighbor_indices(y, x))
                    idx3 = sorted(a.four_neighbor_indices((y, x)))
                    got3 = sorted(id(e) for e in a.four_neighbors(y, x))
                    if got1 != want or got2 != want or idx != widx or idx2 != widx or idx3 != widx or got3 != want:
                        rep.counterexample("four_neighbors", "four_neighbors(%d,%d) on %dx%d wrong" % (y, x, h, w),
                                           {"part": "four_neighbors", "h": h, "w": w, "y": y, "x": x}, True)


# rejection table -------------------------------------------------------------------------------
def part_rejections(ctx):
    rep = ctx.rep
    s = Solver()
    A = mk_array(s, "I", (3,))
    A2 = mk_array(s, "I", (2,))
    P = mk_array(s, "B", (3,))
    P2 = mk_array(s, "B", (2,))
    M = mk_array(s, "I", (2, 3))
    N = mk_array(s, "I", (3, 2))
    Q = mk_array(s, "B", (2, 3))
    Q2 = mk_array(s, "B", (3, 2))
    b, i = s.bool_var(), s.int_var(0, 3)
    rows = []

    def row(name, thunk):
        rows.append((name, thunk))
    for nm, X, Y in (("1d", A, P), ("2d", M, Q)):
        # bool where int required
        row("int_arr+bool_arr/" + nm, lambda X=X, Y=Y: X + Y)
        row("int_arr-bool_expr/" + nm, lambda X=X: X - b)
        row("bool_expr+int_arr/" + nm, lambda X=X: b + X)
        row("int_arr+True/" + nm, lambda X=X: X + True)
        row("False-int_arr/" + nm, lambda X=X: False - X)
        row("int_arr<bool_arr/" + nm, lambda X=X, Y=Y: X < Y)
        row("int_arr>=True/" + nm, lambda X=X: X >= True)
        row("int_arr<=bool_expr/" + nm, lambda X=X: X <= b)
        row("neg bool_arr/" + nm, lambda Y=Y: -Y)
        # int where bool required
        row("bool_arr&int_arr/" + nm, lambda X=X, Y=Y: Y & X)
        row("bool_arr|1/" + nm, lambda Y=Y: Y | 1)
        row("0&bool_arr/" + nm, lambda Y=Y: 0 & Y)
        row("bool_arr^int_expr/" + nm, lambda Y=Y: Y ^ i)
        row("int_expr|bool_arr/" + nm, lambda Y=Y: i | Y)
        row("~int_arr/" + nm, lambda X=X: ~X)
        row("bool_arr.then(int_arr)/" + nm, lambda X=X, Y=Y: Y.then(X))
        row("bool_arr.then(1)/" + nm, lambda Y=Y: Y.then(1))
        row("bool_expr.then(int_arr)/" + nm, lambda X=X: b.then(X))
        row("then(int_arr,bool_arr)/" + nm, lambda X=X, Y=Y: C.then(X, Y))
        row("then(True,int_arr)/" + nm, lambda X=X: C.then(True, X))
        row("int_arr.then/" + nm, lambda X=X, Y=Y: X.then(Y))
        row("bool_arr.cond(bool_arr,1)/" + nm, lambda Y=Y: Y.cond(Y, 1))
        row("bool_arr.cond(1,True)/" + nm, lambda Y=Y: Y.cond(1, True))
        row("bool_expr.cond(int_arr,bool_arr)/" + nm, lambda X=X, Y=Y: b.cond(X, Y))
        row("cond(int_arr,1,2)/" + nm, lambda X=X: C.cond(X, 1, 2))
        row("cond(int_expr,int_arr,2)/" + nm, lambda X=X: C.cond(i, X, 2))
        row("cond(1,int_arr,2)/" + nm, lambda X=X: C.cond(1, X, 2))
        row("int_expr.cond/" + nm, lambda X=X: i.cond(X, X))
    # shape mismatch
    row("shape 3 vs 2 (+)", lambda: A + A2)
    row("shape 3 vs 2 (&)", lambda: P & P2)
    row("shape 3 vs 2 (<)", lambda: A < A2)
    row("shape 3 vs 2 (then)", lambda: P.then(P2))
    row("shape 3 vs 2 (cond t)", lambda: P.cond(A2, 0))
    row("shape 3 vs 2 (cond f)", lambda: P.cond(0, A2))
    row("shape 3 vs 2 (cond fn)", lambda: C.cond(b, A, A2))
    row("shape 2x3 vs 3x2 (+)", lambda: M + N)
    row("shape 2x3 vs 3x2 (|)", lambda: Q | Q2)
    row("shape 2x3 vs 3x2 (==)", lambda: M == N)
    row("shape 2x3 vs 3x2 (cond)", lambda: Q.cond(M, N))
    row("1d vs 2d (+)", lambda: A + M)
    row("1d(6) vs 2d(2x3) (+)", lambda: mk_array(s, "I", (6,)) + M)
    row("1d vs 2d (&)", lambda: P & Q)
    row("then fn shape", lambda: C.then(P, P2))
    for name, thunk in rows:
        rep.finite_tables += 1
        rep.evaluations += 1
        try:
            out = thunk()
        except Exception:
            continue
        kind = "shape-mismatch" if name.startswith("shape") or "vs" in name or name == "then fn shape" else "type-confusion"
        rep.counterexample("accepted:" + name.split("/")[0], "%s was accepted (returned %s) instead of being rejected" % (name, type(out).__name__),
                           {"part": "rejection", "row": name}, True)


def run(tier, only=None):
    rep = common.Report("C12", tier, "translation_validation", FILES)
    rng = random.Random(common.seed())
    ctx = Ctx(rep)
    part_elementwise(ctx)
    part_helpers(ctx, rng)
    part_rejections(ctx)
    rep.programs = rep.obligations
    rep.functions = ["cspuz.array._elementwise", "all operator dunders / then / cond of BoolArray1D/2D, IntArray1D/2D",
                     "cspuz.constraints.count_true/fold_or/fold_and/alldifferent/cond/then/flatten_iterator",
                     "BoolArray2D.conv2d", "four_neighbors / four_neighbor_indices (finite table here; unbounded h,w,y,x: Engine B part)"]
    rep.bounds = {"shapes": SHAPES, "operand forms": "array of variables, array of compound expressions, scalar variable, compound scalar, "
                  "Python literal, in both operand positions", "nestings": "21 nestings up to depth 3 incl. generators, slices, empty",
                  "conv2d": "arrays up to 3x4, windows up to 4x1 / 2x5 incl. windows larger than the array",
                  "rejection table": "finite table of ill-typed / ill-shaped uses (no solver involved)"}
    rep.outside = ["larger shapes (the operators are shape-generic loops)", "A == P / A != P between an int and a bool array (equality is not in the "
                   "property's rejection clause; Python falls back to identity)"]
    rep.assumptions = ["reference translator vlib/ea/ref.py", "z3 sound"]
    from . import c12b
    c12b.run_into(rep, tier)
    return rep.finish("Each operator form is applied to arrays of fresh variables by the real code; one z3 query per form decides that no "
                      "produced element can differ from ref(A[i]) op ref(B[i]) for any variable values (Or of disequalities unsat). Helpers "
                      "are compared with Sum(If)/Or/And/pairwise-distinct over an independently flattened operand list. Rejections and "
                      "four_neighbors on concrete arrays are finite tables (labelled); four_neighbor_indices for unbounded h,w,y,x is decided by CrossHair.")


def replay(payload, verbose=False):
    """re-run the named form on the real code and report whether the defect is still there"""
    rep = common.Report("C12", "quick", "translation_validation", FILES)
    rep.findings.known = {}
    hits = []
    rep.counterexample = lambda key, text, pl, ok: hits.append((key, pl))   # type: ignore
    ctx = Ctx(rep)
    part_elementwise(ctx)
    part_helpers(ctx, random.Random(common.seed()))
    part_rejections(ctx)
    for key, pl in hits:
        if pl == payload:
            if verbose:
                print("still fails:", key)
            return True
    return False
