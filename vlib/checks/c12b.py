def run_into(rep, tier):
    pass
