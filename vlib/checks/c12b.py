"""Engine-B part of C12: four_neighbor_indices for unbounded height, width, coordinates."""
import os

from .. import common
from ..eb import runner

HF = os.path.join(common.VERIF, "vlib", "eb", "harness", "h_c14.py")


def run_into(rep, tier):
    runner.run_conditions(rep, [runner.Cond(HF, "h_four_neighbor_indices", 40 if tier == "quick" else 200, key="four_neighbor_indices")])
