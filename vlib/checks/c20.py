"""C20 - the backend and encoding actually used are the ones configured
(Engine C string flavour: cvc5 over all strings; Engine B: CrossHair; the rest are finite tables, labelled)."""
import ast
import importlib
import importlib.abc
import inspect
import os
import subprocess
import sys
import tempfile
import textwrap
import time
import types
import warnings

import cspuz
import cspuz.configuration as CFG
import cspuz.backend.sugar_like as SL
import cspuz.backend.z3 as BZ
from cspuz import Solver, graph as G, BoolGridFrame
from cspuz.grid_frame import BoolInnerGridFrame

from .. import common
from ..ea import query, sugartext
from ..eb import runner

FILES = ["cspuz/configuration.py", "cspuz/solver.py", "cspuz/graph.py", "cspuz/backend/sugar_like.py"]
HF = os.path.join(common.VERIF, "vlib", "eb", "harness", "h_c20.py")


# ---------------------------------------------------------------------------------------------------------------
# _strtobool: AST -> SMT-LIB strings (cvc5 str.to_lower), all strings of any length
# ---------------------------------------------------------------------------------------------------------------
class Unsupported(Exception):
    pass


def _smt_str(s):
    out = ""
    for ch in s:
        o = ord(ch)
        out += ch if 32 <= o < 127 and ch not in '"\\' else "\\u{%x}" % o
    return '"%s"' % out


def translate_strtobool(func):
    """paths of the function: list of (condition smt text over `s0`, outcome) ; outcome in True/False/'raise:<Name>'"""
    fn = ast.parse(textwrap.dedent(inspect.getsource(func))).body[0]
    if len(fn.args.args) != 1:
        raise Unsupported("one parameter expected")
    param = fn.args.args[0].arg
    paths = []

    def expr_str(e, st):
        if isinstance(e, ast.Name) and e.id in st:
            return st[e.id]
        if isinstance(e, ast.Constant) and isinstance(e.value, str):
            return _smt_str(e.value)
        if isinstance(e, ast.Call) and isinstance(e.func, ast.Attribute) and not e.args and not e.keywords:
            base = expr_str(e.func.value, st)
            if e.func.attr == "lower":
                return "(str.to_lower %s)" % base
            if e.func.attr == "upper":
                return "(str.to_upper %s)" % base
        raise Unsupported("string expression %s" % ast.unparse(e))

    def cond(e, st):
        if isinstance(e, ast.Compare) and len(e.ops) == 1:
            left = expr_str(e.left, st)
            right = e.comparators[0]
            if isinstance(e.ops[0], (ast.In, ast.NotIn)) and isinstance(right, (ast.Tuple, ast.List, ast.Set)):
                items = [expr_str(x, st) for x in right.elts]
                c = "(or false %s)" % " ".join("(= %s %s)" % (left, it) for it in items)
                return c if isinstance(e.ops[0], ast.In) else "(not %s)" % c
            if isinstance(e.ops[0], (ast.Eq, ast.NotEq)):
                c = "(= %s %s)" % (left, expr_str(right, st))
                return c if isinstance(e.ops[0], ast.Eq) else "(not %s)" % c
        if isinstance(e, ast.BoolOp):
            parts = [cond(v, st) for v in e.values]
            return "(%s %s)" % ("and" if isinstance(e.op, ast.And) else "or", " ".join(parts))
        if isinstance(e, ast.UnaryOp) and isinstance(e.op, ast.Not):
            return "(not %s)" % cond(e.operand, st)
        raise Unsupported("condition %s" % ast.unparse(e))

    def block(stmts, st, pc):
        for i, s in enumerate(stmts):
            rest = stmts[i + 1:]
            if isinstance(s, ast.Expr) and isinstance(s.value, ast.Constant):
                continue
            if isinstance(s, ast.Assign) and len(s.targets) == 1 and isinstance(s.targets[0], ast.Name):
                st = dict(st)
                st[s.targets[0].id] = expr_str(s.value, st)
                continue
            if isinstance(s, ast.Return):
                if isinstance(s.value, ast.Constant) and isinstance(s.value.value, bool):
                    paths.append((pc, s.value.value))
                    return
                raise Unsupported("return value %s" % ast.unparse(s))
            if isinstance(s, ast.Raise):
                exc = s.exc
                name = exc.func.id if isinstance(exc, ast.Call) and isinstance(exc.func, ast.Name) else "?"
                paths.append((pc, "raise:" + name))
                return
            if isinstance(s, ast.If):
                t = s.test
                if (isinstance(t, ast.Compare) and len(t.ops) == 1 and isinstance(t.ops[0], ast.In)
                        and isinstance(t.comparators[0], (ast.Tuple, ast.List, ast.Set))):
                    # membership in a literal collection: one path per element (keeps every solver query conjunctive)
                    left = expr_str(t.left, st)
                    items = [expr_str(x, st) for x in t.comparators[0].elts]
                    for k, it in enumerate(items):
                        block(s.body + rest, st, pc + ["(not (= %s %s))" % (left, j) for j in items[:k]] + ["(= %s %s)" % (left, it)])
                    block(s.orelse + rest, st, pc + ["(not (= %s %s))" % (left, j) for j in items])
                    return
                c = cond(s.test, st)
                block(s.body + rest, st, pc + [c])
                block(s.orelse + rest, st, pc + ["(not %s)" % c])
                return
            raise Unsupported("statement %s" % type(s).__name__)
        paths.append((pc, "fallthrough"))
    block(fn.body, {param: "s0"}, [])
    return paths


def _ci(word):
    parts = []
    for ch in word:
        if ch.isalpha():
            parts.append('(re.union (str.to_re "%s") (str.to_re "%s"))' % (ch.lower(), ch.upper()))
        else:
            parts.append('(str.to_re "%s")' % ch)
    return parts[0] if len(parts) == 1 else "(re.++ %s)" % " ".join(parts)


SPEC = {True: "(str.in_re s0 (re.union %s %s))" % (_ci("true"), _ci("1")),
        False: "(str.in_re s0 (re.union %s %s))" % (_ci("false"), _ci("0"))}
SPEC["raise:ValueError"] = "(not (or %s %s))" % (SPEC[True], SPEC[False])


def run_cvc5(queries, timeout=120):
    """queries: list of assertion lists; returns list of (verdict, model string or None)"""
    lines = ["(set-logic QF_SLIA)", "(declare-const s0 String)"]
    for q in queries:
        lines.append("(push 1)")
        for a in q:
            lines.append("(assert %s)" % a)
        lines.append("(check-sat)")
        lines.append("(echo \"--model--\")")
        lines.append("(get-value (s0))")
        lines.append("(pop 1)")
    with tempfile.TemporaryDirectory() as td:
        f = os.path.join(td, "q.smt2")
        open(f, "w").write("\n".join(lines) + "\n")
        try:
            p = subprocess.run(["cvc5", "--strings-exp", "--incremental", "--produce-models", "--tlimit-per=%d" % (timeout * 1000), f],
                               stdout=subprocess.PIPE, stderr=subprocess.PIPE, text=True, timeout=timeout * len(queries) + 30)
            out = p.stdout
        except subprocess.TimeoutExpired:
            return [("timeout", None)] * len(queries)
    res = []
    chunks = out.split("--model--")
    # chunk k ends with the verdict of query k ; chunk k+1 starts with its model / error
    verdicts = []
    for ch in chunks[:-1]:
        ls = [l.strip().strip('"') for l in ch.strip().splitlines() if l.strip().strip('"')]
        verdicts.append(ls[-1] if ls else "?")
    for k, v in enumerate(verdicts):
        model = None
        if v == "sat":
            nxt = chunks[k + 1]
            i = nxt.find('((s0 "')
            if i >= 0:
                j = nxt.find('"))', i)
                model = nxt[i + 6:j]
        res.append((v, model))
    while len(res) < len(queries):
        res.append(("error", None))
    return res


def _unescape(m):
    import re
    return re.sub(r"\\u\{([0-9a-fA-F]+)\}", lambda mo: chr(int(mo.group(1), 16)), m).replace('""', '"')


def table_strtobool(rep):
    """the real _strtobool on a fixed list of spellings (finite table, labelled; it is all that decides the parser when the
    source-level translation cannot encode a rewritten _strtobool, and a cheap cross-check of the cvc5 result otherwise)"""
    import itertools
    words = {"true": True, "1": True, "false": False, "0": False}
    cases = set()
    for w in ("true", "false"):
        for bits in itertools.product((0, 1), repeat=len(w)):
            cases.add("".join(c.upper() if b else c for c, b in zip(w, bits)))
    cases |= {"1", "0", "", " ", "2", "-1", "+1", "-0", "00", "01", "10", "11", "1_0", "0x1", "1.0", "0.0", " 1", "1 ", "\t0", "0\n", "yes", "no", "on", "off",
              "y", "n", "t", "f", "tru", "truee", "true ", " true", "fals", "falsee", "none", "null", "True1", "0false", "\u0661", "\uff11", "\u0131",
              "TRU\u0130", "\u212a", "t\u0280ue"}
    for sx in sorted(cases):
        rep.finite_tables += 1
        want = words.get(sx.lower()) if sx.lower() in words else ValueError
        try:
            got = CFG._strtobool(sx)
        except ValueError:
            got = ValueError
        except Exception as e:      # noqa: B902
            got = "%s: %s" % (type(e).__name__, e)
        if got is not want:
            rep.counterexample("strtobool-table", "_strtobool(%r) gave %r, the strict parser gives %r" % (sx, got, want),
                               {"engine": "table", "what": "strtobool-table", "s": sx}, True)
            return


def part_strtobool(rep):
    table_strtobool(rep)
    try:
        paths = translate_strtobool(CFG._strtobool)
    except Unsupported as e:
        rep.harness_error("Engine C (strings) cannot encode configuration._strtobool: %s" % e)
        return
    rep.extra["strtobool_paths"] = [str(o) for _, o in paths]
    queries, meta = [], []
    words = {True: ("true", "1"), False: ("false", "0")}
    for pc, outcome in paths:
        if outcome not in SPEC:
            rep.counterexample("strtobool-outcome", "_strtobool has an outcome outside {True, False, ValueError}: %s" % outcome,
                               {"engine": "C", "what": "outcome"}, True)
            continue
        if outcome == "raise:ValueError":
            # the negated specification is a disjunction over the four words: one query per disjunct
            for val in (True, False):
                for wd in words[val]:
                    queries.append(pc + ["(str.in_re s0 %s)" % _ci(wd)])
                    meta.append("raises ValueError on a spelling of %r" % wd)
        else:
            queries.append(pc + ["(not %s)" % SPEC[outcome]])
            meta.append("path -> %s but the specification disagrees" % outcome)
    queries.append(["(not (or false %s))" % " ".join("(and true %s)" % " ".join(pc) for pc, _ in paths)])
    meta.append("no path covers the input")
    t0 = time.time()
    res = run_cvc5(queries)
    rep.solver_time += time.time() - t0
    for (v, model), what in zip(res, meta):
        rep.count_query("cvc5:" + v)
        rep.evaluations += 1
        if v == "unsat":
            rep.ok()
            rep.distinct.add("strtobool:" + what)
        elif v == "sat" and model is not None:
            s = _unescape(model)
            rep.counterexample("strtobool", "_strtobool(%r): %s" % (s, what), {"engine": "C", "what": "strtobool", "s": s}, _replay_strtobool(s))
        else:
            rep.inconc("strtobool %s: %s" % (what, v))
    # the ASCII-only str.to_lower vs Python's Unicode-aware lower(): finite table over all code points
    alpha = set("truefals01")
    bad = []
    for cp in range(128, sys.maxunicode + 1):
        if 0xD800 <= cp <= 0xDFFF:
            continue
        lo = chr(cp).lower()
        if lo == "" or all(ch in alpha for ch in lo):
            bad.append(cp)
    rep.finite_tables += sys.maxunicode - 128
    if bad:
        rep.inconc("non-ASCII code points that lower-case into the boolean words' alphabet: %r" % bad[:5])
    else:
        rep.assumptions.append("cvc5's str.to_lower is ASCII-only; Python's lower() agrees on ASCII and (checked over all %d other code points this "
                               "run) maps no non-ASCII character into the alphabet of the four accepted words, so a string containing one is "
                               "rejected by both" % (sys.maxunicode - 128))
        for s in ("TRU\u0205", "\u212a", "tru\u0130", "\uff54rue", "1\u0660"):
            rep.finite_tables += 1
            if not _replay_strtobool(s) is False:
                pass


def _replay_strtobool(s):
    low = s.lower()
    want = True if low in ("true", "1") else (False if low in ("false", "0") else ValueError)
    try:
        got = CFG._strtobool(s)
    except ValueError:
        got = ValueError
    except Exception:
        return True
    return got is not want


# ---------------------------------------------------------------------------------------------------------------
# finite tables (no solver; labelled)
# ---------------------------------------------------------------------------------------------------------------
class _Blocker(importlib.abc.MetaPathFinder):
    def __init__(self, avail):
        self.avail = avail

    def find_spec(self, name, path, target=None):
        if name in self.avail and not self.avail[name]:
            raise ImportError("blocked by the C20 check: " + name)
        return None


def table_config(rep):
    """environment x import availability x flags.  Availability of cspuz_core / enigma_csp / pycsugar is simulated with real
    module files in a temporary directory: 'ok' (imports fine), 'broken' (present, raises ImportError when imported - a partial
    install) or absent; z3 (really installed) is hidden by a meta-path finder when it is to be absent."""
    import itertools
    import shutil
    import tempfile
    mods = ["cspuz_core", "enigma_csp", "pycsugar", "z3"]
    names = {"cspuz_core": "cspuz_core", "enigma_csp": "enigma_csp", "pycsugar": "csugar", "z3": "z3"}
    saved_env = dict(os.environ)
    saved_mods = {m: sys.modules.get(m) for m in mods}
    tmp = tempfile.mkdtemp(prefix="vc20_")
    sys.path.insert(0, tmp)
    try:
        states = []
        for combo in itertools.product(("ok", "absent"), repeat=4):
            states.append(dict(zip(mods, combo)))
        for k, m in enumerate(mods[:3]):            # present-but-broken variants
            for z in ("ok", "absent"):
                st = {x: "absent" for x in mods}
                st[m] = "broken"
                st["z3"] = z
                states.append(st)
                st2 = dict(st)
                for lower in mods[k + 1:3]:
                    st2[lower] = "ok"
                states.append(st2)
        for st in states:
            for m in mods[:3]:
                f = os.path.join(tmp, m + ".py")
                if os.path.exists(f):
                    os.remove(f)
                if st[m] == "ok":
                    open(f, "w").write("def solver(text):\n    raise RuntimeError('stub')\n")
                elif st[m] == "broken":
                    open(f, "w").write("raise ImportError('native extension missing (simulated partial install)')\n")
            importlib.invalidate_caches()
            blocker = _Blocker({"z3": st["z3"] == "ok"})
            sys.meta_path.insert(0, blocker)
            for m in mods:
                sys.modules.pop(m, None)
            if st["z3"] == "ok" and saved_mods["z3"] is not None:
                sys.modules["z3"] = saved_mods["z3"]
            try:
                want_auto = next((names[m] for m in mods if st[m] == "ok"), "sugar")
                envs = [(be, gp, gd, infer) for be in (None, "auto", "sugar", "sugar_extended", "z3", "csugar", "enigma_csp", "cspuz_core", "nonsense")
                        for gp in (None, "true", "1", "false", "0", "TRUE", "False", "yes", "")
                        for gd in (None, "true", "0", "maybe") for infer in (True, False)]
                if "broken" in st.values():
                    envs = [e for e in envs if e[0] in (None, "auto") and e[1] in (None, "true") and e[2] is None]
                for (be, gp, gd, infer) in envs:
                    rep.finite_tables += 1
                    for k in ("CSPUZ_DEFAULT_BACKEND", "CSPUZ_USE_GRAPH_PRIMITIVE", "CSPUZ_USE_GRAPH_DIVISION_PRIMITIVE", "CSPUZ_BACKEND_PATH"):
                        os.environ.pop(k, None)
                    if be is not None:
                        os.environ["CSPUZ_DEFAULT_BACKEND"] = be
                    if gp is not None:
                        os.environ["CSPUZ_USE_GRAPH_PRIMITIVE"] = gp
                    if gd is not None:
                        os.environ["CSPUZ_USE_GRAPH_DIVISION_PRIMITIVE"] = gd
                    ebe, egp, egd = (be, gp, gd) if infer else (None, None, None)
                    w_backend = want_auto if ebe in (None, "auto") else ebe

                    def tb(v, default):
                        if v is None:
                            return default
                        lv = v.lower()
                        if lv in ("true", "1"):
                            return True
                        if lv in ("false", "0"):
                            return False
                        return ValueError
                    w_gp = tb(egp, w_backend in ("csugar", "enigma_csp", "cspuz_core"))
                    w_gd = tb(egd, w_backend in ("enigma_csp", "cspuz_core"))
                    try:
                        c = CFG.Config(infer_from_env=infer)
                        got = (c.default_backend, c.use_graph_primitive, c.use_graph_division_primitive)
                    except ValueError:
                        got = ValueError
                    except Exception as e:
                        got = "%s: %s" % (type(e).__name__, e)
                    want = ValueError if ValueError in (w_gp, w_gd) else (w_backend, w_gp, w_gd)
                    if got != want:
                        rep.counterexample("config-table", "Config(infer_from_env=%s) with modules %r env=(%r,%r,%r): got %r want %r" % (
                            infer, st, be, gp, gd, got, want),
                            {"engine": "table", "what": "config", "state": st, "env": [be, gp, gd], "infer": infer}, True)
                        return
            finally:
                sys.meta_path.remove(blocker)
    finally:
        sys.path.remove(tmp)
        shutil.rmtree(tmp, ignore_errors=True)
        importlib.invalidate_caches()
        os.environ.clear()
        os.environ.update(saved_env)
        for m, v in saved_mods.items():
            if v is None:
                sys.modules.pop(m, None)
            else:
                sys.modules[m] = v


def table_precedence(rep):
    """per-call argument > config at call time; never native for acyclic connectivity"""
    def connected(s, arg, acyclic=False):
        a = s.bool_array((2, 2))
        G.active_vertices_connected(s, a, acyclic=acyclic, use_graph_primitive=arg)

    def connected_1x1(s, arg):
        G.active_vertices_connected(s, s.bool_array((1, 1)), use_graph_primitive=arg)

    def connected_isolated(s, arg):
        G.active_vertices_connected(s, [s.bool_var(), s.bool_var()], G.Graph(2), use_graph_primitive=arg)

    def cycle_one_edge(s, arg):
        g = G.Graph(2)
        g.add_edge(0, 1)
        G.active_edges_single_cycle(s, [s.bool_var()], g, use_graph_primitive=arg)

    def cycle(s, arg):
        G.active_edges_single_cycle(s, BoolGridFrame(s, 1, 1), use_graph_primitive=arg)

    def crossable(s, arg):
        G.active_edges_connected_crossable(s, BoolGridFrame(s, 1, 1), use_graph_primitive=arg)

    def borders(s, arg):
        G.division_connected_variable_groups_with_borders(s, group_size=s.int_array((2, 2), 1, 4), is_border=BoolInnerGridFrame(s, 2, 2),
                                                          use_graph_primitive=arg)

    def division(s, arg):
        if arg is not None:
            return None
        G.division_connected(s, s.int_array((2, 2), 0, 1), 2)
    cases = [("connected", connected, "use_graph_primitive", False), ("connected-acyclic", lambda s, a: connected(s, a, True), "use_graph_primitive", True),
             ("single_cycle", cycle, "use_graph_primitive", False), ("crossable", crossable, "use_graph_primitive", False),
             # degenerate sizes: the switch must be consulted before any small-input shortcut
             ("connected-1x1", connected_1x1, "use_graph_primitive", False), ("connected-isolated", connected_isolated, "use_graph_primitive", False),
             ("single_cycle-one-edge", cycle_one_edge, "use_graph_primitive", False),
             ("borders", borders, "use_graph_division_primitive", False), ("division_connected", division, "use_graph_primitive", False)]
    saved = (cspuz.config.use_graph_primitive, cspuz.config.use_graph_division_primitive)
    try:
        for name, fn, flag, never in cases:
            for arg in (None, True, False):
                for cfg in (True, False):
                    for other in (True, False):
                        rep.finite_tables += 1
                        cspuz.config.use_graph_primitive = cfg if flag == "use_graph_primitive" else other
                        cspuz.config.use_graph_division_primitive = cfg if flag == "use_graph_division_primitive" else other
                        s = Solver()
                        if fn(s, arg) is None and name == "division_connected" and arg is not None:
                            continue
                        got = query.has_native(s.constraints)
                        want = False if never else (arg if arg is not None else cfg)
                        if got != want:
                            rep.counterexample("precedence:" + name, "%s(use_graph_primitive=%r) with config.%s=%r: native operator emitted=%r, expected %r" % (
                                name, arg, flag, cfg, got, want), {"engine": "table", "what": "precedence", "case": name, "arg": arg, "cfg": cfg}, True)
    finally:
        cspuz.config.use_graph_primitive, cspuz.config.use_graph_division_primitive = saved


def table_dispatch(rep):
    """which class is instantiated / which external entry point is invoked"""
    log = []
    classes = {"sugar": ("SL", "SugarBackend"), "sugar_extended": ("SL", "SugarExtendedBackend"), "z3": ("BZ", "Z3Backend"),
               "csugar": ("SL", "CSugarBackend"), "enigma_csp": ("SL", "EnigmaCSPBackend"), "cspuz_core": ("SL", "CspuzCoreBackend")}
    saved = {}
    for nm, (modn, cn) in classes.items():
        mod = SL if modn == "SL" else BZ
        base = getattr(mod, cn)
        saved[(mod, cn)] = base

        def mk(base, nm):
            class Rec(base):
                def __init__(self, variables):
                    log.append(("init", nm))
                    super().__init__(variables)

                def _call_solver(self, text):
                    log.append(("call", nm))
                    return sugartext.answer(text)
            Rec.__name__ = "Rec" + base.__name__
            return Rec
        setattr(mod, cn, mk(base, nm))
    saved_default = cspuz.config.default_backend
    try:
        for default in list(classes) + ["nonsense"]:
            for arg in [None] + list(classes) + ["nonsense", "class"]:
                for method in ("find_answer", "solve"):
                    for created_before in (False, True):
                        # history: the Solver may have been created while another default was configured
                        rep.finite_tables += 1
                        del log[:]
                        cspuz.config.default_backend = ("z3" if default != "z3" else "sugar") if created_before else default
                        s = Solver()
                        x = s.bool_var()
                        s.ensure(x)
                        s.add_answer_key(x)
                        cspuz.config.default_backend = default
                        be = getattr(SL, "CSugarBackend") if arg == "class" else arg
                        want = "csugar" if arg == "class" else (arg if arg is not None else default)
                        with warnings.catch_warnings():
                            warnings.simplefilter("ignore")
                            try:
                                getattr(s, method)(backend=be) if be is not None else getattr(s, method)()
                                got = [n for (k, n) in log if k == "init"]
                            except ValueError:
                                got = ValueError
                        exp = ValueError if want == "nonsense" else [want]
                        if got != exp:
                            rep.counterexample("dispatch", "%s(backend=%r) with config.default_backend=%r (Solver created %s the assignment) "
                                               "instantiated %r, expected %r" % (method, arg, default, "before" if created_before else "after", got, exp),
                                               {"engine": "table", "what": "dispatch", "arg": arg, "default": default, "method": method}, True)
                            return
    finally:
        cspuz.config.default_backend = saved_default
        for (mod, cn), base in saved.items():
            setattr(mod, cn, base)


def table_entry_points(rep):
    """the REAL back-end classes (no recording subclass): which external entry point receives the request, how many requests one
    find_answer / solve makes, and whether the request carries the answer-key line that switches the external solver into
    deduction mode.  The external solvers are stand-ins behind the documented entry points (run_subprocess for the two Sugar
    executables, <module>.solver(text) for the three bindings)."""
    import types
    log = []
    saved_rs = SL.run_subprocess
    saved_mods = {m: sys.modules.get(m) for m in ("pycsugar", "enigma_csp", "cspuz_core")}
    saved_path = cspuz.config.backend_path

    def fake_run(args, text, timeout=None):
        log.append(("subprocess:" + str(args[0]), text))
        return sugartext.answer(text)

    def fake_module(name):
        m = types.ModuleType(name)

        def solver(text):
            log.append(("module:" + name, text))
            return sugartext.answer(text)
        m.solver = solver
        return m
    entry = {"sugar": "subprocess:/opt/fake/sugar", "sugar_extended": "subprocess:/opt/fake/sugar", "csugar": "module:pycsugar",
             "enigma_csp": "module:enigma_csp", "cspuz_core": "module:cspuz_core"}
    try:
        SL.run_subprocess = fake_run
        for m in saved_mods:
            sys.modules[m] = fake_module(m)
        cspuz.config.backend_path = "/opt/fake/sugar"
        for name in entry:
            for method in ("find_answer", "solve"):
                for nkeys in (2, 0):
                    rep.finite_tables += 1
                    del log[:]
                    s = Solver()
                    x, y = s.bool_var(), s.bool_var()
                    n = s.int_var(0, 2)
                    s.ensure(x, (n >= 1) | y)
                    if nkeys:
                        s.add_answer_key(x, y)
                    with warnings.catch_warnings():
                        warnings.simplefilter("ignore")
                        try:
                            ret = getattr(s, method)(backend=name)
                            err = None
                        except Exception as e:      # noqa: B902
                            ret, err = None, "%s: %s" % (type(e).__name__, e)
                    keyed = [any(ln.startswith("#") for ln in t.splitlines()) for (_, t) in log]
                    where = sorted(set(w for (w, _) in log))
                    bad = None
                    if err is not None:
                        bad = "raised " + err
                    elif ret is not True:
                        bad = "returned %r on a satisfiable program" % (ret,)
                    elif where != [entry[name]]:
                        bad = "requests went to %r, expected %r" % (where, entry[name])
                    elif method == "find_answer" and (len(log) != 1 or keyed != [False]):
                        bad = "find_answer made %d request(s), key line present: %r (expected one plain request)" % (len(log), keyed)
                    elif method == "solve" and name == "sugar" and (len(log) < 1 or any(keyed)):
                        bad = "plain Sugar has no deduction mode: %d request(s), key line present: %r" % (len(log), keyed)
                    elif method == "solve" and name != "sugar" and (len(log) != 1 or keyed != [True]):
                        bad = "solve must hand the whole deduction to the external solver in ONE request carrying the answer-key line: " \
                              "%d request(s), key line present: %r" % (len(log), keyed)
                    elif method == "solve" and nkeys and (x.sol is not True or y.sol is not None):
                        bad = "facts after solve: x=%r y=%r (expected True, None)" % (x.sol, y.sol)
                    if bad:
                        rep.counterexample("entry-point:" + name, "%s(backend=%r), %d answer keys: %s" % (method, name, nkeys, bad),
                                           {"engine": "table", "what": "entry", "name": name, "method": method}, True)
                        return
    finally:
        SL.run_subprocess = saved_rs
        cspuz.config.backend_path = saved_path
        for m, v in saved_mods.items():
            if v is None:
                sys.modules.pop(m, None)
            else:
                sys.modules[m] = v


def run(tier, only=None):
    rep = common.Report("C20", tier, "other", FILES)
    part_strtobool(rep)
    T = 60 if tier == "quick" else 300
    conds = [runner.Cond(HF, "h_backend_by_name", T, key="backend-by-name"), runner.Cond(HF, "h_backend_class_passthrough", T, key="backend-by-name")]
    runner.run_conditions(rep, conds)
    table_config(rep)
    table_precedence(rep)
    table_dispatch(rep)
    table_entry_points(rep)
    rep.functions = ["configuration._strtobool (AST -> SMT-LIB strings, cvc5)", "solver._get_backend_by_name / _get_backend (CrossHair)",
                     "configuration._get_default / _detect_backend / Config.__init__ (finite table)", "graph.py use_graph_primitive defaulting (finite table)",
                     "Solver.find_answer / solve backend dispatch (finite table)"]
    rep.bounds = {"_strtobool": "ALL strings of any length (cvc5 strings with str.to_lower; non-ASCII closed by a table over all code points)",
                  "_get_backend_by_name": "every string of length <= 15 (CrossHair)",
                  "Config": "2^4 import-availability combinations (+ present-but-broken modules) x 9 backend settings x 9 x 4 flag spellings x infer_from_env (finite table, real module files in a temp dir)",
                  "precedence": "9 graph constraint calls (incl. 1x1 grid, isolated vertices, a one-edge graph) x argument {None,True,False} x both config flags (finite table)",
                  "entry points": "the 5 text back ends (real classes) x {find_answer, solve} x {2, 0} answer keys: entry point used, number of "
                  "requests, presence of the answer-key line, resulting facts (finite table; stand-in external solvers)",
                  "dispatch": "7 defaults x 9 backend arguments x {find_answer, solve} x {Solver created before / after the default was assigned} (finite table)"}
    rep.outside = ["longer backend names (the dispatch is a chain of == comparisons)", "csugar_binding / backend_path / solver_timeout plumbing"]
    rep.assumptions += ["cvc5 1.0.3 (binary on PATH) is sound for QF_SLIA with str.to_lower", "CrossHair soundness"]
    return rep.finish("The boolean parser's AST is translated to SMT-LIB strings and cvc5 shows, for all strings, that each path's outcome equals "
                      "the specification 'case-insensitive true/1 -> True, false/0 -> False, anything else -> ValueError' (regular-expression "
                      "membership). Name dispatch is executed symbolically by CrossHair. Environment/import/precedence/dispatch combinations "
                      "are finite tables run completely (labelled; no solver involved).")


def replay(payload, verbose=False):
    if payload.get("engine") == "B":
        return runner.generic_replay(payload, verbose)
    if payload.get("what") == "strtobool":
        return _replay_strtobool(payload["s"])
    rep = common.Report("C20", "quick", "other", FILES)
    hits = []
    rep.counterexample = lambda key, text, pl, ok: hits.append(pl)   # type: ignore
    {"config": table_config, "precedence": table_precedence, "dispatch": table_dispatch, "entry": table_entry_points, "strtobool-table": table_strtobool}.get(payload.get("what"), lambda r: None)(rep)
    return bool(hits)
