"""C01 - find_answer decides satisfiability and leaves a genuine model in .sol (z3 back end)."""
import itertools
import multiprocessing as mp
import random
import time
import traceback

import z3

from cspuz import Solver
from cspuz.expr import BoolVar, IntVar

from .. import common
from ..ea import ref, trees

MOD = "vlib.checks.c01"
FILES = ["cspuz/expr.py", "cspuz/constraints.py", "cspuz/solver.py", "cspuz/backend/z3.py", "cspuz/array.py"]
DOMAINS = [(0, 0), (-3, -1), (-2, 5), (0, 100)]
EMPTY_DOMAIN = (2, 1)     # Solver.int_var accepts lo > hi: a variable without any value
ORDERS = ["bbii", "ibib", "iibb", "bibi"]


class _RecSolver:
    """stands in for z3.Solver inside cspuz.backend.z3: records everything add()ed, then behaves like the real one"""
    log = None
    expire = False      # environment stub for the 'time limit' scenario: a solver on which a timeout was set answers unknown

    def __init__(self, *a, **k):
        self._s = z3.Solver(*a, **k)
        self._limited = False

    def add(self, *args):
        if _RecSolver.log is not None:
            _RecSolver.log.append(args)
        return self._s.add(*args)

    def set(self, *a, **k):
        if "timeout" in k or (a and a[0] == "timeout"):
            self._limited = True
        return self._s.set(*a, **k)

    def check(self, *a):
        if _RecSolver.expire and self._limited:
            return z3.unknown
        return self._s.check(*a)

    def __getattr__(self, name):
        return getattr(self._s, name)


class _Proxy:
    def __init__(self, real):
        self._real = real
        self.Solver = _RecSolver

    def __getattr__(self, name):
        return getattr(self._real, name)


def install_proxy():
    import cspuz.backend.z3 as bz
    bz.z3 = _Proxy(z3)


def declare(s, order, doms):
    bv, iv = [], []
    di = iter(doms)
    for ch in order:
        if ch == "b":
            bv.append(s.bool_var())
        else:
            lo, hi = next(di)
            iv.append(s.int_var(lo, hi))
    return bv, iv


def declared(p, iv, late_iv=()):
    """{id(variable): (lo, hi)} as DECLARED by the program text - never read back from the variable objects"""
    return {id(v): tuple(d) for v, d in zip(iv, p["doms"])}


def dom_formula(env, variables, decl):
    out = []
    for v in variables:
        zv = env.z(v)
        if isinstance(v, IntVar):
            lo, hi = decl[id(v)]
            out.append(z3.And(zv >= lo, zv <= hi))
    return z3.And(out) if out else z3.BoolVal(True)


def _flatten_args(args):
    out = []
    for a in args:
        if isinstance(a, (list, tuple)):
            out += _flatten_args(a)
        else:
            out.append(a)
    return out


def _lift(t):
    if isinstance(t, bool):
        return z3.BoolVal(t)
    if z3.is_expr(t) and z3.is_bool(t):
        return t
    return None


def _judge(s, env, bv, iv, decl, posted, ret, step, issues, stats):
    """compares what the back end handed to z3 (captured in _RecSolver.log), the verdict and the model with the reference meaning of
    the descriptions posted so far; appends to issues; returns False when the session should stop"""
    R = z3.And(dom_formula(env, s.variables, decl), *[trees.ref_desc(x, [env.z(v) for v in bv], [env.z(v) for v in iv]) for x in posted])
    cap = []
    for a in _flatten_args(_RecSolver.log):
        la = _lift(a)
        if la is None:
            issues.append({"kind": "nonequivalent", "step": step, "detail": "untranslated constraint handed to z3: %r" % (a,)})
            return False
        cap.append(la)
    t0 = time.time()
    q = z3.Solver()
    q.set("timeout", 20000)
    q.add(z3.Xor(z3.And(cap) if cap else z3.BoolVal(True), R))
    v = str(q.check())
    stats["queries"] += 1
    if v == "sat":
        m = q.model()
        pins = []
        for var in s.variables:
            mv = m.eval(env.z(var), model_completion=True)
            pins.append(bool(z3.is_true(mv)) if isinstance(var, BoolVar) else mv.as_long())
        issues.append({"kind": "nonequivalent", "step": step, "pins": pins,
                       "detail": "z3 program differs from the reference meaning at %r" % (pins,)})
        return False
    if v != "unsat":
        issues.append({"kind": "inconclusive", "step": step, "detail": v})
        return False
    q = z3.Solver()
    q.set("timeout", 20000)
    q.add(R)
    v = str(q.check())
    stats["queries"] += 1
    stats["solver_s"] += time.time() - t0
    if v not in ("sat", "unsat"):
        issues.append({"kind": "inconclusive", "step": step, "detail": v})
        return False
    stats[v] += 1
    if ret is not True and ret is not False:
        issues.append({"kind": "verdict", "step": step, "detail": "find_answer returned %r" % (ret,)})
        return False
    if ret != (v == "sat"):
        issues.append({"kind": "verdict", "step": step, "detail": "find_answer=%r but reference formula is %s" % (ret, v)})
        return False
    if ret:
        subs = []
        for var in s.variables:
            val = var.sol
            if isinstance(var, BoolVar):
                if type(val) is not bool:
                    issues.append({"kind": "model", "step": step, "detail": "sol of %r is %r" % (var.id, val)})
                    return False
                subs.append((env.z(var), z3.BoolVal(val)))
            else:
                lo, hi = decl[id(var)]
                if type(val) is not int or not (lo <= val <= hi):
                    issues.append({"kind": "model", "step": step, "detail": "sol of %r is %r, declared domain [%d, %d]" % (var.id, val, lo, hi)})
                    return False
                subs.append((env.z(var), z3.IntVal(val)))
        if not z3.is_true(z3.simplify(z3.substitute(R, *subs))):
            issues.append({"kind": "model", "step": step,
                           "detail": "sol values %r do not satisfy the constraints" % ([x.sol for x in s.variables],)})
            return False
    return True


def aug_steps(p, bv, iv):
    """generator for an augmented-assignment session: yields (constraint, description) pairs; between the two the SAME Python
    name is updated with += / -= / &= / |= / ^= - the constraint posted before must keep its meaning"""
    a = p["aug"]
    t = trees.mk(a["init"], bv, iv)
    from cspuz.expr import Expr
    if not isinstance(t, Expr):
        raise trees.Unbuildable()

    def cmp_of(node, desc, c):
        if c[0] == "truth":
            return (node if c[1] else ~node), (desc if c[1] else ("not", desc))
        k = c[1]
        return ({"le": lambda: node <= k, "ge": lambda: node >= k, "eq": lambda: node == k, "ne": lambda: node != k}[c[0]](),
                (c[0], desc, ("lit", k)))
    yield cmp_of(t, a["init"], a["c1"])
    x = trees.mk(a["operand"], bv, iv)
    op = a["op"]
    if op == "add":
        t += x
    elif op == "sub":
        t -= x
    elif op == "and":
        t &= x
    elif op == "or":
        t |= x
    else:
        t ^= x
    yield cmp_of(t, (op, a["init"], a["operand"]), a["c2"])


POST_FORMS = ("plain", "gen", "listgen", "map", "iter", "tuple")


def post(s, c, form):
    """Solver.ensure accepts expressions and arbitrarily nested iterables of them (flatten_iterator); the posting form is part of
    the program: one-shot iterators (generator, map, iter) can be walked only once"""
    if form in (None, "plain"):
        s.ensure(c)
    elif form == "gen":
        s.ensure(x for x in [c])
    elif form == "listgen":
        s.ensure([(x for x in [c])], [])
    elif form == "map":
        s.ensure(map(lambda x: x, [c]))
    elif form == "iter":
        s.ensure(iter([c]))
    else:
        s.ensure((c,), ())


def check_program(p):
    """p = {order, doms, steps:[tree]} (or an 'aug' session); returns list of issue dicts (empty = all prefixes fine) + stats"""
    issues = []
    stats = {"queries": 0, "prefixes": 0, "solver_s": 0.0, "sat": 0, "unsat": 0}
    s = Solver()
    bv, iv = declare(s, p["order"], p["doms"])
    decl = declared(p, iv)
    env = ref.Env(prefix="")
    posted = []        # descriptions actually posted so far (their documented meaning is the reference)
    import cspuz
    saved_tmo = cspuz.config.solver_timeout
    _RecSolver.expire = bool(p.get("limit"))
    if p.get("limit"):
        cspuz.config.solver_timeout = 5.0        # a time limit is configured; the stub lets it expire if the back end applies it
    try:
        if p.get("aug"):
            try:
                gen = aug_steps(p, bv, iv)
                for step in range(2):
                    c, desc = next(gen)
                    s.ensure(c)
                    posted.append(desc)
                    stats["prefixes"] += 1
                    _RecSolver.log = []
                    for v in s.variables:
                        v.sol = None
                    ret = s.find_answer(backend="z3")
                    if not _judge(s, env, bv, iv, decl, posted, ret, step, issues, stats):
                        break
            except trees.Unbuildable:
                pass
            except Exception as e:
                issues.append({"kind": "exception", "step": len(posted), "detail": "%s: %s" % (type(e).__name__, str(e)[:200])})
            return issues, stats
        for step, tj in enumerate(p["steps"]):
            t = tj
            try:
                c = trees.mk(t, bv, iv)
            except trees.Unbuildable:
                continue
            except Exception as e:
                issues.append({"kind": "construct-exception", "step": step, "detail": "%s: %s" % (type(e).__name__, e)})
                break
            try:
                post(s, c, p.get("post"))
            except Exception as e:
                issues.append({"kind": "ensure-exception", "step": step, "detail": "%s: %s" % (type(e).__name__, e)})
                break
            posted.append(t)
            stats["prefixes"] += 1
            # late declaration inside a session (histories): a variable declared between two solves (after the first find_answer)
            if p.get("late") and step == 1:
                nb = s.bool_var()
                bv = bv + [nb]
            _RecSolver.log = []
            for v in s.variables:
                v.sol = None
            try:
                ret = s.find_answer(backend="z3")
            except Exception as e:
                if p.get("limit"):
                    continue          # with an expired time limit 'no answer' (an exception) is acceptable; a wrong answer is not
                issues.append({"kind": "exception", "step": step, "detail": "%s: %s" % (type(e).__name__, str(e)[:200])})
                break
            if not _judge(s, env, bv, iv, decl, posted, ret, step, issues, stats):
                break
    finally:
        cspuz.config.solver_timeout = saved_tmo
        _RecSolver.expire = False
    return issues, stats


def _worker(chunk):
    install_proxy()
    out = []
    for p in chunk:
        try:
            issues, stats = check_program(p)
        except Exception as e:
            issues, stats = [{"kind": "harness", "detail": traceback.format_exc()[-1500:]}], {}
        out.append((p, issues, stats))
    return out


def run_session(p, upto_step, solve_last=True):
    """the same actions as check_program up to (and including) step upto_step on a fresh Solver: ensure + find_answer after every
    step.  Returns (solver, bv, iv, posted descriptions, verdict of the last find_answer or None)"""
    s = Solver()
    bv, iv = declare(s, p["order"], p["doms"])
    posted = []
    ret = None
    if p.get("aug"):
        gen = aug_steps(p, bv, iv)
        for step in range(min(upto_step, 1) + 1):
            c, desc = next(gen)
            s.ensure(c)
            posted.append(desc)
            if step < upto_step or solve_last:
                ret = s.find_answer(backend="z3")
        return s, bv, iv, posted, ret
    for step, t in enumerate(p["steps"][:upto_step + 1]):
        try:
            post(s, trees.mk(t, bv, iv), p.get("post"))
        except trees.Unbuildable:
            continue
        posted.append(t)
        if p.get("late") and step == 1:
            bv = bv + [s.bool_var()]
        if step < upto_step or solve_last:
            try:
                ret = s.find_answer(backend="z3")
            except Exception:
                if not p.get("limit"):
                    raise
                ret = None
    return s, bv, iv, posted, ret


def brute_force(p, s, bv, iv, posted):
    """solver-free oracle for replay: enumerate the DECLARED domains, evaluate the posted descriptions with py_desc"""
    decl = declared(p, iv)
    vs = s.variables
    ranges = [(False, True) if isinstance(v, BoolVar) else range(decl[id(v)][0], decl[id(v)][1] + 1) for v in vs]
    for combo in itertools.product(*ranges):
        a = {id(v): x for v, x in zip(vs, combo)}
        if all(trees.py_desc(t, [a[id(v)] for v in bv], [a[id(v)] for v in iv]) for t in posted):
            return True
    return False


def replay(payload, verbose=False):
    import cspuz
    p = dict(payload["program"])
    p["steps"] = [trees.from_json(t) for t in p.get("steps", [])]
    p["doms"] = [tuple(d) for d in p["doms"]]
    if p.get("aug"):
        p["aug"] = {k: (trees.from_json(v) if k in ("init", "operand") else (tuple(v) if isinstance(v, list) else v)) for k, v in p["aug"].items()}
    step = payload["step"]
    size = 1
    for lo, hi in p["doms"]:
        size *= max(0, hi - lo + 1)
    install_proxy()
    saved_tmo = cspuz.config.solver_timeout
    _RecSolver.expire = bool(p.get("limit"))
    _RecSolver.log = None
    if p.get("limit"):
        cspuz.config.solver_timeout = 5.0
    try:
        try:
            if payload.get("pins") is not None:
                # a point where the emitted z3 program and the reference meaning differ: pin every variable to it
                s2, bv, iv, posted, _ = run_session(p, step, solve_last=False)
                a = {}
                for v, val in zip(s2.variables, payload["pins"]):
                    a[id(v)] = val
                    s2.ensure((v if val else ~v) if isinstance(v, BoolVar) else (v == val))
                decl = declared(p, iv)
                inside = all(decl[id(v)][0] <= a[id(v)] <= decl[id(v)][1] for v in iv)
                want = inside and all(trees.py_desc(t, [a[id(v)] for v in bv], [a[id(v)] for v in iv]) for t in posted)
                ret = s2.find_answer(backend="z3")
                if verbose:
                    print("pinned %r: find_answer=%r plain evaluation=%r" % (payload["pins"], ret, want))
                return ret != want
            s2, bv, iv, posted, ret = run_session(p, step)
        except Exception as e:
            if verbose:
                print("real code raised %s: %s" % (type(e).__name__, e))
            return True
        if size > 20000:
            return False
        bf = brute_force(p, s2, bv, iv, posted)
        if verbose:
            print("find_answer=%r brute-force satisfiable=%r" % (ret, bf))
        if ret is None and p.get("limit"):
            return False
        if ret != bf:
            return True
        if ret:
            a = {id(v): v.sol for v in s2.variables}
            decl = declared(p, iv)
            for v in s2.variables:
                if isinstance(v, IntVar) and not (type(v.sol) is int and decl[id(v)][0] <= v.sol <= decl[id(v)][1]):
                    return True
                if isinstance(v, BoolVar) and type(v.sol) is not bool:
                    return True
            try:
                if not all(trees.py_desc(t, [a[id(v)] for v in bv], [a[id(v)] for v in iv]) for t in posted):
                    return True
            except Exception:
                return True
        return False
    finally:
        cspuz.config.solver_timeout = saved_tmo
        _RecSolver.expire = False


def programs(tier, rng):
    out = []

    def prog(steps, late=False):
        doms = [rng.choice(DOMAINS), rng.choice(DOMAINS)]
        if rng.random() < 0.5:
            doms = [rng.choice(DOMAINS[:3]), rng.choice(DOMAINS[:3])]
        if rng.random() < 0.04:
            doms[rng.randrange(2)] = EMPTY_DOMAIN
        return {"order": rng.choice(ORDERS), "doms": doms, "steps": steps, "late": late}
    # (1) every constructor over leaves (exhaustive at depth 1), one constraint per program
    for d in trees.depth1():
        out.append(prog([trees.as_constraint(rng, d)]))
    # (2) every parent/child constructor pair
    for d in trees.pair_cover(rng, 2, 2 if tier == "quick" else 8):
        out.append(prog([trees.as_constraint(rng, d)]))
    if tier == "thorough":
        for d in trees.pair_cover(rng, 3, 4):
            out.append(prog([trees.as_constraint(rng, d)]))
    # (3) incremental sessions: 2-4 constraints, find_answer after each, sometimes a late declaration
    for k in range(600 if tier == "quick" else 6000):
        n = rng.randint(2, 4)
        steps = [trees.as_constraint(rng, trees.random_tree(rng, rng.choice("BI"), rng.randint(1, 3))) for _ in range(n)]
        out.append(prog(steps, late=(k % 3 == 0)))
        if k % 4 == 1:
            out[-1]["post"] = POST_FORMS[1 + (k // 4) % (len(POST_FORMS) - 1)]
    # (4) a configured time limit that expires if the back end applies it (environment stub): no wrong verdict may come out of it
    for k in range(40 if tier == "quick" else 200):
        n = rng.randint(1, 3)
        q = prog([trees.as_constraint(rng, trees.random_tree(rng, rng.choice("BI"), rng.randint(1, 2))) for _ in range(n)])
        q["limit"] = True
        out.append(q)
    # (5) augmented assignment on a name whose node is already part of a posted constraint
    int_inits = [("add", ("iv", 0), ("iv", 1)), ("sub", ("iv", 0), ("iv", 1)), ("add", ("iv", 0), ("lit", 1)), ("neg", ("iv", 0)),
                 ("nadd", [("iv", 0), ("iv", 1), ("lit", 1)]), ("iv", 0), ("count_true", [("bv", 0), ("bv", 1)])]
    int_operands = [("iv", 1), ("iv", 0), ("lit", 2), ("lit", -1), ("add", ("iv", 0), ("iv", 1))]
    bool_inits = [("or", ("bv", 0), ("bv", 1)), ("and", ("bv", 0), ("bv", 1)), ("xor", ("bv", 0), ("bv", 1)), ("not", ("bv", 0)), ("bv", 0),
                  ("fold_or", [("bv", 0), ("bv", 1)]), ("ge", ("iv", 0), ("lit", 1))]
    bool_operands = [("bv", 1), ("bv", 0), ("lit", True), ("lit", False), ("ge", ("iv", 1), ("lit", 0))]
    for init in int_inits:
        for op in ("add", "sub"):
            for operand in int_operands:
                q = prog([])
                q["aug"] = {"init": init, "op": op, "operand": operand, "c1": (rng.choice(["le", "ge", "eq", "ne"]), rng.choice([-1, 0, 1, 3])),
                            "c2": (rng.choice(["le", "ge", "eq", "ne"]), rng.choice([-1, 0, 2, 4]))}
                out.append(q)
    for init in bool_inits:
        for op in ("and", "or", "xor"):
            for operand in bool_operands:
                q = prog([])
                q["aug"] = {"init": init, "op": op, "operand": operand, "c1": ("truth", rng.random() < 0.5), "c2": ("truth", rng.random() < 0.5)}
                out.append(q)
    return out


def run(tier, only=None):
    rep = common.Report("C01", tier, "translation_validation", FILES)
    rng = random.Random(common.seed())
    progs = programs(tier, rng)
    jobs = common.ncores()
    chunks = [progs[i::jobs * 4] for i in range(jobs * 4)]
    ctx = mp.get_context("fork")
    results = []
    with ctx.Pool(jobs) as pool:
        for r in pool.imap_unordered(_worker, [c for c in chunks if c]):
            results += r
    ops_seen = set()
    for p, issues, stats in results:
        rep.programs += 1
        rep.evaluations += stats.get("prefixes", 0)
        rep.count_query("xor-equivalence+verdict", stats.get("solver_s", 0.0), stats.get("queries", 0))
        rep.extra["ref_sat"] = rep.extra.get("ref_sat", 0) + stats.get("sat", 0)
        rep.extra["ref_unsat"] = rep.extra.get("ref_unsat", 0) + stats.get("unsat", 0)
        pj = {"order": p["order"], "doms": p["doms"], "late": p.get("late", False), "steps": [trees.to_json(t) for t in p["steps"]]}
        if p.get("limit"):
            pj["limit"] = True
        if p.get("post"):
            pj["post"] = p["post"]
        if p.get("aug"):
            pj["aug"] = {k: (trees.to_json(v) if k in ("init", "operand") else v) for k, v in p["aug"].items()}
        if not issues:
            rep.ok(max(1, stats.get("prefixes", 1)))
            rep.distinct.add(repr(pj["steps"]) + repr(pj.get("aug")) + repr(pj.get("limit")))
            if rep.programs % 400 == 1:
                rep.sample({"program": pj, "prefixes_checked": stats.get("prefixes")})
            continue
        for it in issues:
            if it["kind"] == "harness":
                rep.harness_error(it["detail"])
            elif it["kind"] == "inconclusive":
                rep.inconc("%r: %s" % (pj["steps"], it["detail"]))
            else:
                payload = {"program": pj, "step": it.get("step", 0), "kind": it["kind"], "pins": it.get("pins")}
                ok = replay(payload)
                rep.counterexample(it["kind"], "%s at step %d of %s: %s" % (it["kind"], it.get("step", 0), pj.get("aug") or pj["steps"], it["detail"]),
                                   payload, ok)
    rep.functions = ["cspuz.solver.Solver.ensure/find_answer/bool_var/int_var", "cspuz.backend.z3.Z3Backend.__init__/add_constraint/solve",
                     "cspuz.backend.z3._convert_expr", "cspuz.expr operators (dunder methods, cond, then)",
                     "cspuz.constraints.count_true/fold_or/fold_and/alldifferent/cond/then",
                     "cspuz.array.BoolArray1D.fold_or/fold_and, IntArray1D.alldifferent"]
    rep.bounds = {"trees": "every public constructor over all leaf combinations (depth 1, lists of length 0..3); every parent/child "
                           "constructor pair at depth 2%s; random sessions of 2-4 constraints of depth <= 3" % (
                               "" if tier == "quick" else " and 3"),
                  "variables": "2 booleans + 2 integers (+1 late boolean), domains from %r, 4 declaration orders" % (DOMAINS,),
                  "posting forms": "a quarter of the sessions hand each constraint to ensure() inside a generator, a generator nested in a list, a map object, an iterator or a tuple",
                  "histories": "find_answer after every ensure (every prefix), optional declaration between solves; augmented assignment "
                               "(+= -= &= |= ^=) on a name whose node already sits in a posted constraint (7 x 2 x 5 integer and 7 x 3 x 5 boolean forms)",
                  "time limit": "programs solved with config.solver_timeout set and a z3.Solver stub that answers unknown once a timeout has "
                                "been set on it: an exception is acceptable, a verdict must be right"}
    rep.outside = ["deeper trees / more variables (covered only by compositionality of the per-constructor cases)",
                   "z3 answering unknown without any time limit set (the DSL has no nonlinear terms)"]
    rep.assumptions = ["the documented meaning of each public constructor as written in vlib/ea/trees.py (ref_desc / py_desc), independent of the trees the library builds",
                       "z3 5.1.0 sound; it is also the back end under test (separate Solver objects, different formulas)",
                       "captured program = every argument of z3.Solver.add() inside the real Z3Backend.solve (proxy of the module global z3)",
                       "variable domains are taken from the program text (the declaration), never read back from the variable objects"]
    return rep.finish("For each program the real Solver/Z3Backend run; everything the back end add()s to z3 is captured and z3 decides "
                      "captured <=> (domains & reference translation) over all variable values (Xor unsat); find_answer's verdict is "
                      "compared with z3 on the reference formula; returned sol values are substituted into the reference formula "
                      "(must simplify to true, right Python types, inside domains). Counterexamples are replayed against a solver-free "
                      "brute-force evaluation.")
