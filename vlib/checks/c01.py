"""C01 - find_answer decides satisfiability and leaves a genuine model in .sol (z3 back end)."""
import itertools
import multiprocessing as mp
import random
import time
import traceback

import z3

from cspuz import Solver
from cspuz.expr import BoolVar, IntVar

from .. import common
from ..ea import ref, trees

MOD = "vlib.checks.c01"
FILES = ["cspuz/expr.py", "cspuz/constraints.py", "cspuz/solver.py", "cspuz/backend/z3.py", "cspuz/array.py"]
DOMAINS = [(0, 0), (-3, -1), (-2, 5), (0, 100)]
EMPTY_DOMAIN = (2, 1)     # Solver.int_var accepts lo > hi: a variable without any value
ORDERS = ["bbii", "ibib", "iibb", "bibi"]


class _RecSolver:
    """stands in for z3.Solver inside cspuz.backend.z3: records everything add()ed, then behaves like the real one"""
    log = None

    def __init__(self, *a, **k):
        self._s = z3.Solver(*a, **k)

    def add(self, *args):
        _RecSolver.log.append(args)
        return self._s.add(*args)

    def __getattr__(self, name):
        return getattr(self._s, name)


class _Proxy:
    def __init__(self, real):
        self._real = real
        self.Solver = _RecSolver

    def __getattr__(self, name):
        return getattr(self._real, name)


def install_proxy():
    import cspuz.backend.z3 as bz
    bz.z3 = _Proxy(z3)


def declare(s, order, doms):
    bv, iv = [], []
    di = iter(doms)
    for ch in order:
        if ch == "b":
            bv.append(s.bool_var())
        else:
            lo, hi = next(di)
            iv.append(s.int_var(lo, hi))
    return bv, iv


def _flatten_args(args):
    out = []
    for a in args:
        if isinstance(a, (list, tuple)):
            out += _flatten_args(a)
        else:
            out.append(a)
    return out


def _lift(t):
    if isinstance(t, bool):
        return z3.BoolVal(t)
    if z3.is_expr(t) and z3.is_bool(t):
        return t
    return None


def check_program(p):
    """p = {order, doms, steps:[tree]} ; returns list of issue dicts (empty = all prefixes fine) + stats"""
    issues = []
    stats = {"queries": 0, "prefixes": 0, "solver_s": 0.0, "sat": 0, "unsat": 0}
    s = Solver()
    bv, iv = declare(s, p["order"], p["doms"])
    env = ref.Env(prefix="")
    posted = []        # descriptions actually posted so far (their documented meaning is the reference)
    for step, tj in enumerate(p["steps"]):
        t = tj
        try:
            c = trees.mk(t, bv, iv)
        except trees.Unbuildable:
            continue
        except Exception as e:
            issues.append({"kind": "construct-exception", "step": step, "detail": "%s: %s" % (type(e).__name__, e)})
            break
        try:
            s.ensure(c)
        except Exception as e:
            issues.append({"kind": "ensure-exception", "step": step, "detail": "%s: %s" % (type(e).__name__, e)})
            break
        posted.append(t)
        stats["prefixes"] += 1
        # late declaration inside a session (histories): a variable declared between two solves (after the first find_answer)
        if p.get("late") and step == 1:
            nb = s.bool_var()
            bv = bv + [nb]
        _RecSolver.log = []
        for v in s.variables:
            v.sol = None
        try:
            ret = s.find_answer(backend="z3")
        except Exception as e:
            issues.append({"kind": "exception", "step": step, "detail": "%s: %s" % (type(e).__name__, str(e)[:200])})
            break
        # reference formula
        zb = [env.z(v) for v in bv]
        zi = [env.z(v) for v in iv]
        R = z3.And(env.domain(s.variables), *[trees.ref_desc(x, zb, zi) for x in posted])
        cap = []
        bad = False
        for a in _flatten_args(_RecSolver.log):
            la = _lift(a)
            if la is None:
                issues.append({"kind": "nonequivalent", "step": step, "detail": "untranslated constraint handed to z3: %r" % (a,)})
                bad = True
                break
            cap.append(la)
        if bad:
            break
        t0 = time.time()
        q = z3.Solver()
        q.set("timeout", 20000)
        q.add(z3.Xor(z3.And(cap) if cap else z3.BoolVal(True), R))
        v = str(q.check())
        stats["queries"] += 1
        if v == "sat":
            m = q.model()
            pins = []
            for var in s.variables:
                mv = m.eval(env.z(var), model_completion=True)
                pins.append(bool(z3.is_true(mv)) if isinstance(var, BoolVar) else mv.as_long())
            issues.append({"kind": "nonequivalent", "step": step, "pins": pins,
                           "detail": "z3 program differs from the reference meaning at %r" % (pins,)})
            break
        if v != "unsat":
            issues.append({"kind": "inconclusive", "step": step, "detail": v})
            break
        q = z3.Solver()
        q.set("timeout", 20000)
        q.add(R)
        v = str(q.check())
        stats["queries"] += 1
        stats["solver_s"] += time.time() - t0
        if v not in ("sat", "unsat"):
            issues.append({"kind": "inconclusive", "step": step, "detail": v})
            break
        stats[v] += 1
        if ret is not True and ret is not False:
            issues.append({"kind": "verdict", "step": step, "detail": "find_answer returned %r" % (ret,)})
            break
        if ret != (v == "sat"):
            issues.append({"kind": "verdict", "step": step, "detail": "find_answer=%r but reference formula is %s" % (ret, v)})
            break
        if ret:
            subs = []
            ok = True
            for var in s.variables:
                val = var.sol
                if isinstance(var, BoolVar):
                    if type(val) is not bool:
                        ok = False
                        break
                    subs.append((env.z(var), z3.BoolVal(val)))
                else:
                    if type(val) is not int or not (var.lo <= val <= var.hi):
                        ok = False
                        break
                    subs.append((env.z(var), z3.IntVal(val)))
            if not ok:
                issues.append({"kind": "model", "step": step, "detail": "sol of %r is %r" % (var.id, val)})
                break
            if not z3.is_true(z3.simplify(z3.substitute(R, *subs))):
                issues.append({"kind": "model", "step": step,
                               "detail": "sol values %r do not satisfy the constraints" % ([x.sol for x in s.variables],)})
                break
    return issues, stats


def _worker(chunk):
    install_proxy()
    out = []
    for p in chunk:
        try:
            issues, stats = check_program(p)
        except Exception as e:
            issues, stats = [{"kind": "harness", "detail": traceback.format_exc()[-1500:]}], {}
        out.append((p, issues, stats))
    return out


def brute_force(p, upto_step):
    """solver-free oracle for replay: enumerate the (small) domains, evaluate with pyeval"""
    s = Solver()
    bv, iv = declare(s, p["order"], p["doms"])
    for step, t in enumerate(p["steps"][:upto_step + 1]):
        try:
            s.ensure(trees.mk(t, bv, iv))
        except trees.Unbuildable:
            continue
        if p.get("late") and step == 1:
            bv = bv + [s.bool_var()]
    vs = s.variables
    posted = []
    for t in p["steps"][:upto_step + 1]:
        if trees.buildable(t):
            posted.append(t)
    ranges = [(False, True) if isinstance(v, BoolVar) else range(v.lo, v.hi + 1) for v in vs]
    for combo in itertools.product(*ranges):
        a = {id(v): x for v, x in zip(vs, combo)}
        if all(trees.py_desc(t, [a[id(v)] for v in bv], [a[id(v)] for v in iv]) for t in posted):
            return s, True
    return s, False


def replay(payload, verbose=False):
    p = dict(payload["program"])
    p["steps"] = [trees.from_json(t) for t in p["steps"]]
    p["doms"] = [tuple(d) for d in p["doms"]]
    step = payload["step"]
    size = 1
    for lo, hi in p["doms"]:
        size *= hi - lo + 1
    s, bf = brute_force(p, step) if size <= 20000 else (None, None)
    s2 = Solver()
    bv, iv = declare(s2, p["order"], p["doms"])
    try:
        ret = None
        for k, t in enumerate(p["steps"][:step + 1]):
            try:
                s2.ensure(trees.mk(t, bv, iv))
            except trees.Unbuildable:
                continue
            if p.get("late") and k == 1:
                bv = bv + [s2.bool_var()]
            if k < step:
                s2.find_answer(backend="z3")          # the same history as in the check: a solve after every step
        if payload.get("pins") is not None:
            # a point where the emitted z3 program and the reference meaning differ: pin every variable to it
            a = {}
            for v, val in zip(s2.variables, payload["pins"]):
                a[id(v)] = val
                s2.ensure((v if val else ~v) if isinstance(v, BoolVar) else (v == val))
            posted = [t for t in p["steps"][:step + 1] if trees.buildable(t)]
            want = all(trees.py_desc(t, [a[id(v)] for v in bv], [a[id(v)] for v in iv]) for t in posted)
            ret = s2.find_answer(backend="z3")
            if verbose:
                print("pinned %r: find_answer=%r plain evaluation=%r" % (payload["pins"], ret, want))
            return ret != want
        ret = s2.find_answer(backend="z3")
    except Exception as e:
        if verbose:
            print("real code raised %s: %s" % (type(e).__name__, e))
        return True
    if bf is None:
        return False
    if verbose:
        print("find_answer=%r brute-force satisfiable=%r" % (ret, bf))
    if ret != bf:
        return True
    if ret:
        a = {id(v): v.sol for v in s2.variables}
        try:
            posted = [t for t in p["steps"][:step + 1] if trees.buildable(t)]
            if not all(trees.py_desc(t, [a[id(v)] for v in bv], [a[id(v)] for v in iv]) for t in posted):
                return True
        except Exception:
            return True
        for v in s2.variables:
            if isinstance(v, IntVar) and not (type(v.sol) is int and v.lo <= v.sol <= v.hi):
                return True
            if isinstance(v, BoolVar) and type(v.sol) is not bool:
                return True
    return False


def programs(tier, rng):
    out = []

    def prog(steps, late=False):
        doms = [rng.choice(DOMAINS), rng.choice(DOMAINS)]
        if rng.random() < 0.5:
            doms = [rng.choice(DOMAINS[:3]), rng.choice(DOMAINS[:3])]
        if rng.random() < 0.04:
            doms[rng.randrange(2)] = EMPTY_DOMAIN
        return {"order": rng.choice(ORDERS), "doms": doms, "steps": steps, "late": late}
    # (1) every constructor over leaves (exhaustive at depth 1), one constraint per program
    for d in trees.depth1():
        out.append(prog([trees.as_constraint(rng, d)]))
    # (2) every parent/child constructor pair
    for d in trees.pair_cover(rng, 2, 2 if tier == "quick" else 8):
        out.append(prog([trees.as_constraint(rng, d)]))
    if tier == "thorough":
        for d in trees.pair_cover(rng, 3, 4):
            out.append(prog([trees.as_constraint(rng, d)]))
    # (3) incremental sessions: 2-4 constraints, find_answer after each, sometimes a late declaration
    for k in range(600 if tier == "quick" else 6000):
        n = rng.randint(2, 4)
        steps = [trees.as_constraint(rng, trees.random_tree(rng, rng.choice("BI"), rng.randint(1, 3))) for _ in range(n)]
        out.append(prog(steps, late=(k % 3 == 0)))
    return out


def run(tier, only=None):
    rep = common.Report("C01", tier, "translation_validation", FILES)
    rng = random.Random(common.seed())
    progs = programs(tier, rng)
    jobs = common.ncores()
    chunks = [progs[i::jobs * 4] for i in range(jobs * 4)]
    ctx = mp.get_context("fork")
    results = []
    with ctx.Pool(jobs) as pool:
        for r in pool.imap_unordered(_worker, [c for c in chunks if c]):
            results += r
    ops_seen = set()
    for p, issues, stats in results:
        rep.programs += 1
        rep.evaluations += stats.get("prefixes", 0)
        rep.count_query("xor-equivalence+verdict", stats.get("solver_s", 0.0), stats.get("queries", 0))
        rep.extra["ref_sat"] = rep.extra.get("ref_sat", 0) + stats.get("sat", 0)
        rep.extra["ref_unsat"] = rep.extra.get("ref_unsat", 0) + stats.get("unsat", 0)
        pj = {"order": p["order"], "doms": p["doms"], "late": p.get("late", False), "steps": [trees.to_json(t) for t in p["steps"]]}
        if not issues:
            rep.ok(max(1, stats.get("prefixes", 1)))
            rep.distinct.add(repr(pj["steps"]))
            if rep.programs % 400 == 1:
                rep.sample({"program": pj, "prefixes_checked": stats.get("prefixes")})
            continue
        for it in issues:
            if it["kind"] == "harness":
                rep.harness_error(it["detail"])
            elif it["kind"] == "inconclusive":
                rep.inconc("%r: %s" % (pj["steps"], it["detail"]))
            else:
                payload = {"program": pj, "step": it.get("step", 0), "kind": it["kind"], "pins": it.get("pins")}
                ok = replay(payload)
                root = p["steps"][it.get("step", 0)][0]
                rep.counterexample(it["kind"], "%s at step %d of %s: %s" % (it["kind"], it.get("step", 0), pj["steps"], it["detail"]),
                                   payload, ok)
    rep.functions = ["cspuz.solver.Solver.ensure/find_answer/bool_var/int_var", "cspuz.backend.z3.Z3Backend.__init__/add_constraint/solve",
                     "cspuz.backend.z3._convert_expr", "cspuz.expr operators (dunder methods, cond, then)",
                     "cspuz.constraints.count_true/fold_or/fold_and/alldifferent/cond/then",
                     "cspuz.array.BoolArray1D.fold_or/fold_and, IntArray1D.alldifferent"]
    rep.bounds = {"trees": "every public constructor over all leaf combinations (depth 1, lists of length 0..3); every parent/child "
                           "constructor pair at depth 2%s; random sessions of 2-4 constraints of depth <= 3" % (
                               "" if tier == "quick" else " and 3"),
                  "variables": "2 booleans + 2 integers (+1 late boolean), domains from %r, 4 declaration orders" % (DOMAINS,),
                  "histories": "find_answer after every ensure (every prefix), optional declaration between solves"}
    rep.outside = ["deeper trees / more variables (covered only by compositionality of the per-constructor cases)",
                   "z3 answering unknown (the real back end treats it as sat; the DSL has no nonlinear terms)"]
    rep.assumptions = ["the documented meaning of each public constructor as written in vlib/ea/trees.py (ref_desc / py_desc), independent of the trees the library builds",
                       "z3 5.1.0 sound; it is also the back end under test (separate Solver objects, different formulas)",
                       "captured program = every argument of z3.Solver.add() inside the real Z3Backend.solve (proxy of the module global z3)"]
    return rep.finish("For each program the real Solver/Z3Backend run; everything the back end add()s to z3 is captured and z3 decides "
                      "captured <=> (domains & reference translation) over all variable values (Xor unsat); find_answer's verdict is "
                      "compared with z3 on the reference formula; returned sol values are substituted into the reference formula "
                      "(must simplify to true, right Python types, inside domains). Counterexamples are replayed against a solver-free "
                      "brute-force evaluation.")
