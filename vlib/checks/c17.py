"""C17 - decoding arbitrary text never crashes and only yields re-encodable problems (Engine B: CrossHair + builtin models)."""
import importlib

from cspuz.problem_serializer import deserialize_problem, deserialize_problem_as_url

from .. import common
from ..eb import runner
from ._codec_common import C, HF, nd_table, validate_models

FILES = ["cspuz/problem_serializer.py", "cspuz/puzzle/yajilin.py", "cspuz/puzzle/heyawake.py", "bench/pzv_problem.py"]
PUZZLES = ["nurikabe", "masyu", "slitherlink", "sudoku", "nurimisaki", "yajilin", "heyawake", "lits", "norinori"]


def conditions(tier):
    q = tier == "quick"
    T = 100 if q else 900
    cs = []
    dims = [(1, 1), (1, 2), (2, 1), (2, 2), (0, 1), (1, 0), (0, 0)] if q else [(h, w) for h in range(0, 4) for w in range(0, 4)]
    for codec in PUZZLES:
        for (h, w) in dims:
            L = 4 if (codec in ("nurikabe", "sudoku", "nurimisaki") and h * w == 2 and not q) or (not q and h * w <= 4) else 3
            if q and codec in ("nurikabe", "sudoku") and (h, w) == (1, 2):
                L = 4
            if q and (h * w == 4 or codec == "yajilin"):
                L = 2
            if q and (h, w) == (1, 1):
                L = 2 if codec == "yajilin" else 3          # a single cell: every token of up to two / three characters
            cs.append(C(HF, codec, "h_text", h, w, l=L, t=T * (2 if L >= 4 else 1),
                        key="h_text:%s:%s" % (codec, "dim0" if h * w == 0 else ("1xN" if min(h, w) == 1 else "HxW"))))
    # room codecs that do not start at offset 0 of the text
    for (h, w) in ([(1, 2), (2, 2)] if q else [(1, 2), (2, 1), (2, 2), (1, 3)]):
        cs.append(C(HF, "Tupl_Hex_Rooms", "h_text", h, w, l=3, t=2 * T, key="h_text:Rooms-at-offset"))
        cs.append(C(HF, "Tupl_Hex_VRooms", "h_text", h, w, l=3 if q else 4, t=2 * T, key="h_text:Rooms-at-offset"))
    for codec in ("Rooms", "Rooms_skip", "Rooms_redundant", "ValuedRooms", "Grid_SpacesHex"):
        for (h, w) in ([(0, 1), (1, 0), (1, 2), (2, 2)] if q else dims):
            cs.append(C(HF, codec, "h_text", h, w, l=2 if (q and h * w == 4) else 3, t=T, key="h_text:%s:%s" % (codec, "dim0" if h * w == 0 else ("1xN" if min(h, w) == 1 else "HxW"))))
    # histories: the same (module-level) codec object used for another board size earlier in the process
    priors = {"nurikabe": "2,2,1i", "masyu": "2,3,00", "slitherlink": "2,2,gc", "sudoku": "3,1,1h", "nurimisaki": "2,2,.i", "yajilin": "2,2,11b",
              "heyawake": "2,2,00h", "lits": "2,2,00", "norinori": "2,2,00"}
    for codec in PUZZLES:
        cs.append(C(HF, codec, "h_text", 1, 2, l=2 if codec == "yajilin" else 3, t=T, VERIF_PRIOR=priors[codec], key="h_text-after-other-size:" + codec))
    for codec in PUZZLES:
        cs.append(C(HF, codec, "h_url_fields", t=4 * T, VERIF_DMAX=2 if q else 3, key="url-fields:" + codec))
    for codec in (("nurikabe", "heyawake") if q else PUZZLES):
        cs.append(C(HF, codec, "h_url_any", l=5 if q else 6, t=T, key="url-any"))
    return cs


_HUGE_SCRIPT = r"""
import sys, time, resource, importlib
sys.path.insert(0, sys.argv[1])
resource.setrlimit(resource.RLIMIT_AS, (4 << 30, 4 << 30))
from cspuz.problem_serializer import deserialize_problem_as_url
for name in sys.argv[2:]:
    comb = getattr(importlib.import_module("cspuz.puzzle." + name), name.upper() + "_COMBINATOR")
    for (w, h) in [(10**13, 2), (2, 10**13), (2**63, 2**63), (10**6, 10**6)]:
        for body in ["", "0", "00g", "a1"]:
            t0 = time.time()
            url = "https://puzz.link/p?%s/%d/%d/%s" % (name, w, h, body)
            try:
                r = deserialize_problem_as_url(comb, url, allow_failure=True)
                out = "None" if r is None else "VALUE"
            except ValueError:
                out = "ValueError"
            except BaseException as e:
                out = "CRASH:" + type(e).__name__
            print("%s\t%d\t%d\t%s\t%s\t%.1f" % (name, w, h, body, out, time.time() - t0), flush=True)
"""


def table_one_room(rep):
    """well-formed URLs of an undivided board (one room of h*w cells) well below the size at which the recursive flood fill of the
    unchanged code reaches the interpreter's recursion limit (about 31x31 at the default limit of 1000): they must decode to one
    room (finite table, labelled; recursion limit pinned to 1000 for the table)"""
    import sys
    from cspuz.puzzle import lits
    old = sys.getrecursionlimit()
    sys.setrecursionlimit(1000)
    try:
        for (h, w) in [(12, 12), (20, 20), (25, 25), (15, 40), (40, 15)]:
            rep.finite_tables += 1
            nchar = -(-(h * (w - 1)) // 5) + -(-((h - 1) * w) // 5)
            url = "https://puzz.link/p?lits/%d/%d/%s" % (w, h, "0" * nchar)
            try:
                r = lits.deserialize_lits(url)
                ok = r is not None and r[0] == h and r[1] == w and len(r[2]) == 1 and len(r[2][0]) == h * w
                what = "decoded to %s" % (None if r is None else "%d room(s)" % len(r[2]))
            except Exception as e:      # noqa: B902
                ok, what = False, "raised %s" % type(e).__name__
            if not ok:
                rep.counterexample("one-room:%dx%d" % (h, w), "undivided %dx%d lits board %s" % (h, w, what), {"engine": "table", "what": "one-room"}, True)
                return
    finally:
        sys.setrecursionlimit(old)


def table_huge(rep):
    """declared sizes far beyond memory with short bodies: None / ValueError, promptly, without allocating the board first
    (finite table in a subprocess with a 4 GiB address-space limit; no solver involved, labelled)"""
    import subprocess
    import sys
    try:
        p = subprocess.run([sys.executable, "-B", "-c", _HUGE_SCRIPT, common.REPO] + PUZZLES, stdout=subprocess.PIPE, stderr=subprocess.PIPE,
                           text=True, timeout=240)
        lines, timed_out = p.stdout.splitlines(), False
    except subprocess.TimeoutExpired as e:
        out = e.stdout or ""
        lines, timed_out = (out.decode() if isinstance(out, bytes) else out).splitlines(), True
    seen = 0
    for ln in lines:
        f = ln.split("\t")
        if len(f) != 6:
            continue
        seen += 1
        rep.finite_tables += 1
        if f[4] not in ("None", "ValueError") or float(f[5]) > 20:
            rep.counterexample("huge-size:" + f[0], "%s/%s/%s/%s -> %s after %ss" % (f[0], f[1], f[2], f[3], f[4], f[5]),
                               {"engine": "table", "what": "huge", "fn": f[0]}, True)
            return
    if timed_out or seen != len(PUZZLES) * 16:
        rep.counterexample("huge-size:hang", "decoding a URL with an absurd declared size did not return (last line: %r)" % (lines[-1:] or None,),
                           {"engine": "table", "what": "huge", "fn": "?"}, True)


def run(tier, only=None):
    rep = common.Report("C17", tier, "other", FILES)
    validate_models(rep)
    cs = conditions(tier)
    if only:
        cs = [c for c in cs if only in c.name]
    runner.run_conditions(rep, cs)
    # finite table for the characters cut from the symbolic model
    fns = []
    for codec in PUZZLES:
        comb = getattr(importlib.import_module("cspuz.puzzle." + codec), codec.upper() + "_COMBINATOR")
        fns.append((codec, lambda s, comb=comb: deserialize_problem(comb, s, height=1, width=2)))
    nd_table(rep, fns, ["-10g", "+100", "11g", "g1", "0."])
    if not only:
        table_huge(rep)
        table_one_room(rep)
    rep.functions = ["deserialize_problem / deserialize_problem_as_url / get_puzzle_info_from_url", "all Combinator.deserialize methods",
                     "the nine puzzle codecs' *_COMBINATOR", "YajilinClue.deserialize"]
    rep.bounds = {"bodies": "EVERY Unicode text of length <= 3 (4 on two-cell boards for the hex codecs) per codec and per declared (height,width)",
                  "declared dimensions": "0..2 x 0..2 incl. zero (quick), 0..3 x 0..3 (thorough), one condition per pair",
                  "histories": "each puzzle codec additionally after a decode + encode of another board size in the same process",
                  "URL level": "symbolic width/height/puzzle name/allow_failure/return_size with bodies from a fixed list; fully symbolic url of "
                  "length <= 5/6",
                  "absurd declared sizes": "finite table: widths / heights 10^6, 10^13, 2^63 with 4 short bodies per codec in a subprocess limited "
                  "to 4 GiB: None / ValueError within 20 s (no solver involved)",
                  "non-ASCII decimal digits reaching int()": "finite table (every Nd character in every position of 5 seed bodies, 9 codecs)"}
    rep.outside = ["longer bodies", "Rooms._deserialize floods recursively: an all-zero body on a board with h*w > ~990 cells raises RecursionError "
                   "(recursion depth = h*w); no bound reachable by symbolic execution gets there - recorded as an out-of-bound risk, not decided here"]
    rep.assumptions += ["CrossHair 'Confirmed over all paths' is sound"]
    return rep.finish("CrossHair executes the real decoders on a fully symbolic body text; any exception other than ValueError, a returned problem "
                      "of the wrong dimensions, or one that does not serialise and decode to itself is a counterexample (replayed concretely "
                      "with the real builtins).")


def replay(payload, verbose=False):
    if payload.get("what") == "one-room":
        rep = common.Report("C17", "quick", "other", FILES)
        hits = []
        rep.counterexample = lambda key, text, pl, ok: hits.append(text)   # type: ignore
        table_one_room(rep)
        return bool(hits)
    if payload.get("what") == "huge":
        rep = common.Report("C17", "quick", "other", FILES)
        hits = []
        rep.counterexample = lambda key, text, pl, ok: hits.append(text)   # type: ignore
        table_huge(rep)
        if verbose:
            print(hits)
        return bool(hits)
    if payload.get("engine") == "table":
        comb = getattr(importlib.import_module("cspuz.puzzle." + payload["fn"]), payload["fn"].upper() + "_COMBINATOR")
        try:
            deserialize_problem(comb, payload["text"], height=1, width=2)
        except ValueError:
            return False
        except Exception:
            return True
        return False
    return runner.generic_replay(payload, verbose)
