"""shared by C15 / C16 / C17: condition builders, model validation, finite Nd-digit table"""
import os
import random

from .. import common
from ..eb import models, runner

HF = os.path.join(common.VERIF, "vlib", "eb", "harness", "h_codec.py")
H16 = os.path.join(common.VERIF, "vlib", "eb", "harness", "h_c16.py")


def C(file, codec, func, h=1, w=2, l=3, t=60, key=None, **env):
    e = {"VERIF_CODEC": codec, "VERIF_H": str(h), "VERIF_W": str(w), "VERIF_L": str(l)}
    e.update({k: str(v) for k, v in env.items()})
    tag = ",".join("%s=%s" % (k[6:], v) for k, v in sorted(env.items()))
    return runner.Cond(file, func, t, name="%s[%s,%dx%d,L%d%s]" % (func, codec, h, w, l, "," + tag if tag else ""), use_models=True, env=e,
                       key=key or "%s:%s" % (func, codec))


def validate_models(rep):
    n = models.validate(random.Random(common.seed()))
    rep.extra["builtin_model_validation_cases"] = n
    rep.assumptions.append("model_hex / model_int (vlib/eb/models.py) equal the builtins: compared concretely on %d inputs this run, incl. "
                           "every code point as a single character and all ASCII/whitespace/digit strings of length <= 2" % n)
    rep.assumptions.append("under CrossHair, paths on which int() meets a non-ASCII decimal digit are cut (IgnoreAttempt); those characters "
                           "are covered by the finite Nd table instead")


def nd_table(rep, decode_fns, seeds):
    """finite table: every non-ASCII decimal digit substituted into each position of each seed text; decoding must not
    raise anything but ValueError (labelled: enumeration, no solver)"""
    nd = models.nd_chars()
    for name, fn in decode_fns:
        for seed in seeds:
            for pos in range(len(seed)):
                for ch in nd[:: (7 if rep.tier == "quick" else 1)]:
                    rep.finite_tables += 1
                    s = seed[:pos] + ch + seed[pos + 1:]
                    try:
                        fn(s)
                    except ValueError:
                        pass
                    except Exception as e:
                        rep.counterexample("nd-digit:%s:%s" % (name, type(e).__name__),
                                           "%s(%r) raised %s" % (name, s, type(e).__name__), {"engine": "table", "fn": name, "text": s}, True)
                        return
