"""C04 - active_vertices_connected holds exactly for connected (or tree) active sets."""
import random

import z3

from cspuz import Solver, graph as G
from cspuz.array import BoolArray1D, BoolArray2D

from .. import common
from ..ea import graphs, query, ref, spec

MOD = "vlib.checks.c04"
FILES = ["cspuz/graph.py", "cspuz/configuration.py", "cspuz/constraints.py", "cspuz/expr.py", "cspuz/array.py"]


def _operands(s, n, mode, consts):
    """is_active items for n vertices in the requested style; returns list of BoolExprLike"""
    if mode == "vars":
        return [s.bool_var() for _ in range(n)]
    if mode == "neg":
        return [~s.bool_var() for _ in range(n)]
    if mode == "and":
        return [s.bool_var() & s.bool_var() for _ in range(n)]
    if mode == "xor":
        return [s.bool_var() ^ s.bool_var() for _ in range(n)]
    if mode == "mixed":
        out = []
        for i in range(n):
            c = consts[i % len(consts)]
            if c == "T":
                out.append(True)
            elif c == "F":
                out.append(False)
            elif c == "v":
                out.append(s.bool_var())
            else:
                a = s.bool_var()
                iv = s.int_var(0, 2)
                out.append(a | (iv >= 1))
        return out
    raise ValueError(mode)


def build(d):
    s = Solver()
    form = d["form"]
    if form == "grid":
        h, w = d["h"], d["w"]
        n, edges = h * w, spec.grid_edges(h, w)
        items = _operands(s, n, d["mode"], d.get("consts", "v"))
        arr = BoolArray2D(items, (h, w))
        xv = list(s.variables)
        G.active_vertices_connected(s, arr, acyclic=d["acyclic"], use_graph_primitive=d["primitive"])
    else:
        n, edges = d["n"], [tuple(e) for e in d["edges"]]
        from ._ea_common import mk_graph
        g = mk_graph(n, edges, d.get("history"))
        items = _operands(s, n, d["mode"], d.get("consts", "v"))
        xv = list(s.variables)
        arg = BoolArray1D(items) if form == "array1d" else items
        G.active_vertices_connected(s, arg, g, acyclic=d["acyclic"], use_graph_primitive=d["primitive"])
    if d["primitive"] and d["acyclic"] and query.has_native(s.constraints):
        raise AssertionError("native operator emitted for acyclic=True")
    if d["primitive"] and not d["acyclic"] and not query.has_native(s.constraints):
        raise AssertionError("use_graph_primitive=True did not emit the native operator")
    if not d["primitive"] and query.has_native(s.constraints):
        raise AssertionError("use_graph_primitive=False emitted a native operator")

    def spec_z3(env):
        act = [ref.rb(x, env) for x in items]
        return spec.tree_or_empty(n, edges, act) if d["acyclic"] else spec.connected(n, edges, act)

    def spec_py(assign):
        act = [bool(ref.pyeval(x, assign)) for x in items]
        return spec.tree_or_empty_py(n, edges, act) if d["acyclic"] else spec.connected_py(n, edges, act)

    return query.Built(s, xv, spec_z3, spec_py)


def instances(tier, rng):
    out = []

    def add(name, **kw):
        kw["name"] = name
        out.append(kw)
    gl = []
    maxn = 4 if tier == "quick" else 5
    for n in range(1, maxn + 1):
        for i, es in enumerate(graphs.all_graphs(n)):
            gl.append(("g%d_%d" % (n, i), n, es))
    for n in ([5, 6] if tier == "quick" else [6, 7, 8]):
        for nm, es in graphs.named_graphs(n).items():
            gl.append((nm, n, es))
    if tier == "thorough":
        for k in range(30):
            n = rng.randint(6, 9)
            gl.append(("rnd%d_n%d" % (k, n), n, graphs.random_multigraph(rng, n, rng.randint(n - 2, n + 4))))
    for nm, n, es in gl:
        for acyclic in (False, True):
            for prim in (False, True):
                add("%s/vars/ac%d/pr%d" % (nm, acyclic, prim), form="graph", n=n, edges=es, mode="vars",
                    acyclic=acyclic, primitive=prim)
    # the same graphs with their edges stored in the other direction (add_edge(v, u)): the constraint is about undirected graphs
    from ._ea_common import orient
    for nm, n, es in gl:
        if es and n <= 5:
            for how in ("rev", "alt"):
                for acyclic in (False, True):
                    add("%s/vars/ac%d/pr0/%s" % (nm, acyclic, how), form="graph", n=n, edges=orient(es, how), mode="vars", acyclic=acyclic,
                        primitive=False)
    # histories: the Graph object was used (and its line graph taken) before its last edges were added
    for nm, n, es in gl:
        if len(es) >= 2 and n <= 6:
            for acyclic in (False, True):
                add("%s/vars/ac%d/pr0/hist" % (nm, acyclic), form="graph", n=n, edges=es, mode="vars", acyclic=acyclic, primitive=False,
                    history=len(es) // 2)
    # operand styles on a subset of graphs
    sub = [g for g in gl if g[1] in (3, 4)][:: (3 if tier == "quick" else 1)]
    for nm, n, es in sub:
        for mode in ("neg", "and", "xor", "mixed"):
            for acyclic in (False, True):
                for prim in ((False, True) if (mode == "mixed" or tier != "quick") else (False,)):
                    for consts in (("vTFe", "Tvev") if mode == "mixed" else ("v",)):
                        add("%s/%s%s/ac%d/pr%d" % (nm, mode, consts if mode == "mixed" else "", acyclic, prim),
                            form="array1d" if mode == "and" else "graph", n=n, edges=es, mode=mode, consts=consts,
                            acyclic=acyclic, primitive=prim)
    # grids
    cells = 9 if tier == "quick" else 12
    shapes = graphs.grid_shapes(cells)
    if tier == "thorough":
        shapes += [(4, 4), (1, 14), (2, 7), (3, 5), (5, 3), (2, 8), (8, 2)]
    for (h, w) in shapes:
        for acyclic in (False, True):
            for prim in (False, True):
                add("grid%dx%d/vars/ac%d/pr%d" % (h, w, acyclic, prim), form="grid", h=h, w=w, mode="vars",
                    acyclic=acyclic, primitive=prim)
        if h * w <= 6:
            for mode in ("neg", "and"):
                add("grid%dx%d/%s/ac0/pr0" % (h, w, mode), form="grid", h=h, w=w, mode=mode, acyclic=False, primitive=False)
    return out


def spot(tier, rng):
    from . import _ea_common as E
    out = []
    shapes = [(4, 4), (2, 8), (5, 5), (4, 7), (6, 6)] if tier == "quick" else [(4, 4), (2, 8), (8, 2), (5, 5), (4, 7), (7, 4), (6, 6), (5, 8), (7, 7), (3, 12)]
    for (h, w) in shapes:
        sp = E.spiral_path(h, w)
        pats = []

        def grid_of(cells):
            g = [False] * (h * w)
            for (y, x) in cells:
                g[y * w + x] = True
            return g
        pats.append(grid_of(sp))                                  # long induced path: connected, a tree
        pats.append(grid_of(sp[:len(sp) // 2] + sp[len(sp) // 2 + 1:]))   # the same with a gap: disconnected
        ring = [(y, x) for y in range(h) for x in range(w) if y in (0, h - 1) or x in (0, w - 1)]
        pats.append(grid_of(ring))                                # a cycle: connected, not a tree
        pats.append(grid_of(ring[:-1]))
        pats.append([True] * (h * w))
        pats.append([False] * (h * w))
        for c in (0, h * w // 2, h * w - 1):                      # exactly one active cell
            pats.append([k == c for k in range(h * w)])
        pats.append([k in (0, h * w - 1) for k in range(h * w)])  # two far-apart cells
        pats.append([k in (0, 1) for k in range(h * w)])          # two adjacent cells
        for _ in range(3):
            pats.append([rng.random() < 0.6 for _ in range(h * w)])
        for acyclic in (False, True):
            for prim in ((False,) if acyclic else (False, True)):
                out.append(dict(name="spot-grid%dx%d/ac%d/pr%d" % (h, w, acyclic, prim), form="grid", h=h, w=w, mode="vars", acyclic=acyclic,
                                primitive=prim, patterns=pats))
    for n in ((12, 16) if tier == "quick" else (12, 16, 24, 30)):
        for nm, es in (("path", [(i, i + 1) for i in range(n - 1)]), ("cycle", [(i, (i + 1) % n) for i in range(n)]),
                       ("midpath", [(2 * i % n if 2 * i < n else (2 * (n - 1 - i) + 1), 0) for i in range(0)])):
            if not es:
                continue
            pats = [[True] * n, [True] * (n // 2) + [False] + [True] * (n - n // 2 - 1), [i % 3 != 0 for i in range(n)], [False] * n]
            for acyclic in (False, True):
                out.append(dict(name="spot-%s%d/ac%d" % (nm, n, acyclic), form="graph", n=n, edges=es, mode="vars", acyclic=acyclic,
                                primitive=False, patterns=pats))
    return out


def key_of(d, kind):
    return "%s,%s,acyclic=%d,primitive=%d,%s" % (d["form"], d["mode"], d["acyclic"], d["primitive"], kind)


def run(tier, only=None):
    rep = common.Report("C04", tier, "translation_validation", FILES)
    rng = random.Random(common.seed())
    rep.extra["spec_selftest_cases"] = spec.self_test(rng, 40)
    descs = instances(tier, rng)
    if only:
        descs = [d for d in descs if only in d["name"]]
    tmo = 60 if tier == "quick" else 240
    results = query.run_pool(MOD, descs, tmo)
    query.absorb(rep, MOD, results, key_of, "active_vertices_connected")
    sd = spot(tier, rng)
    if only:
        sd = [d for d in sd if only in d["name"]]
    query.run_spot(rep, MOD, sd, key_of, "active_vertices_connected", tmo)
    rep.functions = ["cspuz.graph.active_vertices_connected", "cspuz.graph._active_vertices_connected",
                     "cspuz.graph._grid_graph", "cspuz.graph.Graph.add_edge", "cspuz.constraints.count_true/then",
                     "cspuz.solver.Solver.ensure/bool_array/int_array"]
    rep.bounds = {"graphs": "all simple graphs up to isomorphism on <= %d vertices + named families + %s" % (
        4 if tier == "quick" else 5, "6-vertex families" if tier == "quick" else "30 seeded random multigraphs on 6-9 vertices"),
        "grids": "all h*w <= %d%s" % (9 if tier == "quick" else 12, "" if tier == "quick" else " + 4x4, 1x14, 2x7"),
        "operand styles": "variables, ~v, a&b, a^b, mix of Python constants / variables / (a | i>=1)",
        "per-query timeout_s": tmo}
    rep.bounds["spot mode"] = ("grids up to 7x7 / 3x12 and path / cycle graphs up to 30 vertices with is_active PINNED to adversarial patterns "
                                "(spiral induced path, the same with a gap, perimeter ring, all, none, seeded random); all rank/root "
                                "assignments symbolic - a sample of patterns, not all 2^n")
    rep.outside = ["graphs / grids larger than listed (beyond the exists-forall bound only the pinned spot patterns are decided)", "0-vertex graph (Solver.int_array(0,0,-1) raises)"]
    rep.assumptions = ["reference translator vlib/ea/ref.py gives the ordinary meaning of the DSL operators",
                       "spec library vlib/ea/spec.py (closure-matrix connectivity) is the meaning of 'connected'/'tree'",
                       "z3 5.1.0 is sound (quantified completeness queries use its quantifier engine)",
                       "native operator operand layout = (n, m, n flags, 2m endpoints) as documented in graph.py"]
    return rep.finish("Per instance the real active_vertices_connected is run on a recording Solver; z3 decides, over all values "
                      "of the caller's variables and of every hidden auxiliary variable at once, soundness F&~R unsat and "
                      "completeness R & forall aux. ~F unsat (exists-forall); sat answers are replayed through Solver.find_answer.")


def replay(payload, verbose=False):
    ok, detail = query.replay(payload["module"], payload["desc"], payload["kind"], payload.get("witness"), verbose)
    if verbose:
        print(detail)
    return ok
