"""C05 - division_connected holds exactly for labelings whose classes are connected."""
import z3

import cspuz
from cspuz import Solver, graph as G
from cspuz.array import IntArray1D, IntArray2D

from ..ea import graphs, query, ref, spec
from . import _ea_common as E

MOD = "vlib.checks.c05"
FILES = ["cspuz/graph.py", "cspuz/array.py", "cspuz/constraints.py", "cspuz/expr.py", "cspuz/configuration.py"]


def build(d):
    s = Solver()
    k = d["k"]
    form = d["form"]
    if form == "grid":
        h, w = d["h"], d["w"]
        n, edges = h * w, spec.grid_edges(h, w)
    else:
        n, edges = d["n"], [tuple(e) for e in d["edges"]]
    if d["labels"] == "vars":
        items = [s.int_var(0, k - 1) for _ in range(n)]
    else:  # expressions ranging over 0..k-1
        items = [s.int_var(1, k) - 1 for _ in range(n)]
    xv = list(s.variables)
    roots = d.get("roots")
    old = cspuz.config.use_graph_primitive
    cspuz.config.use_graph_primitive = bool(d["primitive"])
    try:
        if form == "grid":
            if d.get("prior"):
                # history: another grid with other roots went through division_connected earlier in this process (throw-away Solver)
                t = Solver()
                G.division_connected(t, t.int_array((h, w), 0, 1), 2, roots=[(h - 1, w - 1), (0, 0)])
            r2 = None if roots is None else [None if r is None else (r // w, r % w) for r in roots]
            G.division_connected(s, IntArray2D(items, (h, w)), k, roots=r2, allow_empty_group=d["allow_empty"])
        else:
            g = E.mk_graph(n, edges, d.get("history"))
            arg = IntArray1D(items) if form == "array1d" else items
            G.division_connected(s, arg, k, g, roots=roots, allow_empty_group=d["allow_empty"])
    finally:
        cspuz.config.use_graph_primitive = old
    if bool(d["primitive"]) != query.has_native(s.constraints) and k > 0:
        raise AssertionError("config.use_graph_primitive=%s but native operator present=%s" % (d["primitive"], query.has_native(s.constraints)))

    def spec_z3(env):
        lab = [ref.ri(x, env) for x in items]
        return spec.division_connected_spec(n, edges, lab, k, roots, d["allow_empty"])

    def spec_py(assign):
        lab = [ref.pyeval(x, assign) for x in items]
        return spec.division_connected_spec_py(n, edges, lab, k, roots, d["allow_empty"])
    return query.Built(s, xv, spec_z3, spec_py)


def _roots_lists(n, k, rng, many):
    out = [None, []]            # (a roots list may be shorter than the number of regions: the remaining regions are free)
    if k >= 2:
        out.append([n - 1])
        out.append([None, 0])
    if k >= 1:
        out.append([0] + [None] * (k - 1))
        out.append([None] * (k - 1) + [n - 1])
    if k >= 2 and n >= 2:
        out.append([n - 1, 0] + [None] * (k - 2))
        if many:
            for _ in range(3):
                a, b = rng.sample(range(n), 2)
                r = [None] * k
                i, j = rng.sample(range(k), 2)
                r[i], r[j] = a, b
                out.append(r)
    if k >= 2 and n >= 2:
        out.append([n - 1, n - 1] + [None] * (k - 2))   # the same vertex demanded by two regions: unsatisfiable by spec too
        out.append([0] + [None] * (k - 2) + [0])
    return out


def instances(tier, rng):
    out = []
    gl = []
    maxn = 4 if tier == "quick" else 5
    for n in range(1, maxn + 1):
        for i, es in enumerate(graphs.all_graphs(n)):
            gl.append(("g%d_%d" % (n, i), n, es))
    for n in ([5] if tier == "quick" else [6]):
        for nm, es in graphs.named_graphs(n).items():
            gl.append((nm, n, es))
    maxk = 3 if tier == "quick" else 4
    for nm, n, es in gl:
        for k in range(1, maxk + 1):
            if tier == "quick" and n >= 4 and k == 3 and sum(map(ord, nm)) % 2:
                continue
            for ae in (False, True):
                for prim in (False, True):
                    for form in ("list", "array1d"):
                        if tier == "quick" and form == "array1d" and not prim:
                            continue
                        roots_all = _roots_lists(n, k, rng, tier == "thorough")
                        for ri, roots in enumerate(roots_all if (n <= 4 or tier == "thorough") else roots_all[:4]):
                            out.append(dict(name="%s/k%d/ae%d/pr%d/%s/r%d" % (nm, k, ae, prim, form, ri), form=form, n=n, edges=es,
                                            k=k, allow_empty=ae, primitive=prim, roots=roots, labels="vars"))
        if es:
            for how in ("rev", "alt"):
                out.append(dict(name="%s/k2/%s" % (nm, how), form="list", n=n, edges=E.orient(es, how), k=2, allow_empty=False, primitive=False,
                                roots=None, labels="vars"))
        if len(es) >= 2:
            for prim in (False, True):
                out.append(dict(name="%s/k2/hist/pr%d" % (nm, prim), form="list", n=n, edges=es, k=2, allow_empty=False, primitive=prim,
                                roots=None, labels="vars", history=len(es) // 2))
        if n <= 3:
            out.append(dict(name="%s/k2/expr" % nm, form="list", n=n, edges=es, k=2, allow_empty=False, primitive=False,
                            roots=None, labels="expr"))
    cells = 6 if tier == "quick" else 9
    for (h, w) in graphs.grid_shapes(cells):
        for k in range(1, maxk + 1):
            if h * w >= 8 and k >= 4:
                continue
            for ae in (False, True):
                for prim in (False, True):
                    for ri, roots in enumerate(_roots_lists(h * w, k, rng, False)):
                        out.append(dict(name="grid%dx%d/k%d/ae%d/pr%d/r%d" % (h, w, k, ae, prim, ri), form="grid", h=h, w=w, k=k,
                                        allow_empty=ae, primitive=prim, roots=roots, labels="vars"))
    for (h, w) in [(1, 2), (2, 2), (2, 3)]:
        for k in (1, 2):
            for prim in (False, True):
                for ri, roots in enumerate([None, [0] + [None] * (k - 1), []]):
                    out.append(dict(name="grid%dx%d/k%d/ae0/pr%d/r%d/after-other-roots" % (h, w, k, prim, ri), form="grid", h=h, w=w, k=k,
                                    allow_empty=False, primitive=prim, roots=roots, labels="vars", prior=True))
    return out


def spot(tier, rng):
    """long paths / cycles / larger grids with the labeling pinned (whole graph one region, halves, alternating, seeded random);
    all forest / rank / root auxiliaries symbolic"""
    out = []
    for n in ((12, 18) if tier == "quick" else (12, 18, 26)):
        for nm, es in (("path", [(i, i + 1) for i in range(n - 1)]), ("cycle", [(i, (i + 1) % n) for i in range(n)])):
            for k in (2, 3):
                pats = [[0] * n, [0] * (n // 2) + [1] * (n - n // 2), [i % 2 for i in range(n)], [min(k - 1, i * k // n) for i in range(n)],
                        [rng.randrange(k) for _ in range(n)]]
                for ae in (False, True):
                    for prim in (False, True):
                        out.append(dict(name="spot-%s%d/k%d/ae%d/pr%d" % (nm, n, k, ae, prim), form="list", n=n, edges=es, k=k, allow_empty=ae,
                                        primitive=prim, roots=[0] + [None] * (k - 1), labels="vars", patterns=pats))
    for (h, w) in ((4, 4), (3, 6)) if tier == "quick" else ((4, 4), (3, 6), (5, 5)):
        n = h * w
        pats = [[0] * n, [0 if (c % w) < w // 2 else 1 for c in range(n)], [(c // w + c % w) % 2 for c in range(n)],
                [0 if c // w == 0 or c % w == 0 else 1 for c in range(n)]]
        for ae in (False, True):
            out.append(dict(name="spot-grid%dx%d/k2/ae%d" % (h, w, ae), form="grid", h=h, w=w, k=2, allow_empty=ae, primitive=False,
                            roots=None, labels="vars", patterns=pats))
    return out


def key_of(d, kind):
    return "%s,primitive=%d,%s" % (d["form"], d["primitive"], kind)


def run(tier, only=None):
    return E.run_engine_a(
        "C05", MOD, FILES, tier, only, instances, key_of, "division_connected",
        ["cspuz.graph.division_connected", "cspuz.graph._division_connected", "cspuz.graph._active_vertices_connected (primitive route)",
         "cspuz.graph._grid_graph"],
        {"graphs": "all simple graphs <= %d vertices + named %d-vertex families" % ((4, 5) if tier == "quick" else (5, 6)),
         "grids": "h*w <= %d" % (6 if tier == "quick" else 9), "num_regions": "1..%d" % (3 if tier == "quick" else 4),
         "roots": "None, first/last vertex, two roots, (thorough) random pairs and a doubly-claimed vertex",
         "forms": "list, IntArray1D, IntArray2D with (y,x) roots; labels as variables 0..k-1 or expressions v-1; "
                  "config.use_graph_primitive on/off (division_connected has no per-call switch)"},
        ["more regions / larger graphs (beyond the bound only pinned 'spot' labelings on paths/cycles up to 26 vertices and grids up to 5x5 are "
         "decided)", "label expressions that can leave 0..num_regions-1 (outside the property's precondition)"],
        E.EXPL, spot=spot)


replay = E.generic_replay
