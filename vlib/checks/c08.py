"""C08 - not_adjacent / not_adjacent_and_not_segmenting match their graph definitions."""
from cspuz import Solver, graph as G
from cspuz.array import BoolArray1D, BoolArray2D

from ..ea import graphs, query, ref, spec
from . import _ea_common as E

MOD = "vlib.checks.c08"
FILES = ["cspuz/graph.py", "cspuz/array.py", "cspuz/constraints.py", "cspuz/expr.py"]


def build(d):
    s = Solver()
    if d["form"] == "grid2":
        # history: two boards of the same shape constrained on ONE Solver (multi-layer puzzles): each must obey the rule on its own
        h, w = d["h"], d["w"]
        n, edges = h * w, spec.grid_edges(h, w)
        a1 = E.bool_items(s, n, "vars")
        a2 = E.bool_items(s, n, "vars")
        xv = list(s.variables)
        G.active_vertices_not_adjacent_and_not_segmenting(s, BoolArray2D(a1, (h, w)))
        G.active_vertices_not_adjacent_and_not_segmenting(s, BoolArray2D(a2, (h, w)))
        import z3 as _z3

        def spec_z3_2(env):
            out = []
            for items in (a1, a2):
                act = [ref.rb(x, env) for x in items]
                out.append(_z3.And(spec.not_adjacent(n, edges, act), spec.connected(n, edges, [_z3.Not(a) for a in act])))
            return _z3.And(out)

        def spec_py_2(assign):
            for items in (a1, a2):
                act = [bool(ref.pyeval(x, assign)) for x in items]
                if not (spec.not_adjacent_py(n, edges, act) and spec.connected_py(n, edges, [not a for a in act])):
                    return False
            return True
        return query.Built(s, xv, spec_z3_2, spec_py_2)
    if d["form"] == "grid":
        h, w = d["h"], d["w"]
        n, edges = h * w, spec.grid_edges(h, w)
        items = E.bool_items(s, n, d["mode"])
        arr = BoolArray2D(items, (h, w))
        xv = list(s.variables)
        if d["fn"] == "na":
            G.active_vertices_not_adjacent(s, arr)
        else:
            G.active_vertices_not_adjacent_and_not_segmenting(s, arr)
    else:
        n, edges = d["n"], [tuple(e) for e in d["edges"]]
        items = E.bool_items(s, n, d["mode"])
        xv = list(s.variables)
        g = E.mk_graph(n, edges, d.get("history"))
        if d["fn"] == "na":
            G.active_vertices_not_adjacent(s, items if d["form"] == "list" else BoolArray1D(items), g)
        else:
            G.active_vertices_not_adjacent_and_not_segmenting(s, BoolArray1D(items), g)

    def spec_z3(env):
        act = [ref.rb(x, env) for x in items]
        r = spec.not_adjacent(n, edges, act)
        if d["fn"] == "nans":
            import z3
            r = z3.And(r, spec.connected(n, edges, [z3.Not(a) for a in act]))
        return r

    def spec_py(assign):
        act = [bool(ref.pyeval(x, assign)) for x in items]
        r = spec.not_adjacent_py(n, edges, act)
        if d["fn"] == "nans":
            r = r and spec.connected_py(n, edges, [not a for a in act])
        return r
    return query.Built(s, xv, spec_z3, spec_py)


def instances(tier, rng):
    out = []
    cells = 9 if tier == "quick" else 12
    shapes = graphs.grid_shapes(cells)
    if tier == "thorough":
        shapes += [(4, 4), (1, 14), (14, 1), (3, 5), (5, 3)]
    for (h, w) in shapes:
        for fn in ("na", "nans"):
            out.append(dict(name="grid%dx%d/%s/vars" % (h, w, fn), form="grid", h=h, w=w, fn=fn, mode="vars"))
            # the same grid through the explicit-graph form (grid encoding == graph encoding on the grid graph)
            out.append(dict(name="gridgraph%dx%d/%s/vars" % (h, w, fn), form="array1d", n=h * w,
                            edges=spec.grid_edges(h, w), fn=fn, mode="vars"))
        if h * w <= 6:
            for mode in ("neg", "and"):   # BoolArray2D holds expressions only (no Python constants by its type)
                out.append(dict(name="grid%dx%d/nans/%s" % (h, w, mode), form="grid", h=h, w=w, fn="nans", mode=mode))
    gl = []
    for n in range(1, (4 if tier == "quick" else 5) + 1):
        for i, es in enumerate(graphs.all_graphs(n)):
            gl.append(("g%d_%d" % (n, i), n, es))
    for n in ([5, 6] if tier == "quick" else [6, 7, 8]):
        for nm, es in graphs.named_graphs(n).items():
            gl.append((nm, n, es))
    if tier == "thorough":
        for k in range(20):
            n = rng.randint(5, 9)
            gl.append(("rnd%d" % k, n, graphs.random_multigraph(rng, n, rng.randint(n - 2, n + 4))))
    for nm, n, es in gl:
        out.append(dict(name="%s/na/list" % nm, form="list", n=n, edges=es, fn="na", mode="vars"))
        if n >= 2 and es:
            for cm in ("c0T", "c0F"):      # a Python constant among the items of a plain list (never two constants on one edge)
                out.append(dict(name="%s/na/list/%s" % (nm, cm), form="list", n=n, edges=es, fn="na", mode=cm))
        out.append(dict(name="%s/nans/array1d" % nm, form="array1d", n=n, edges=es, fn="nans", mode="vars"))
        if es:
            for how in ("rev", "alt"):
                out.append(dict(name="%s/na/list/%s" % (nm, how), form="list", n=n, edges=E.orient(es, how), fn="na", mode="vars"))
                out.append(dict(name="%s/nans/array1d/%s" % (nm, how), form="array1d", n=n, edges=E.orient(es, how), fn="nans", mode="vars"))
        if len(es) >= 2:
            out.append(dict(name="%s/nans/array1d/hist" % nm, form="array1d", n=n, edges=es, fn="nans", mode="vars", history=len(es) // 2))
        if n <= 4:
            out.append(dict(name="%s/nans/array1d/and" % nm, form="array1d", n=n, edges=es, fn="nans", mode="and"))
    out += _grid2_instances(tier)
    return out


def _grid2_instances(tier):
    return [dict(name="grid2_%dx%d/nans" % (h, w), form="grid2", h=h, w=w, fn="nans", mode="vars")
            for (h, w) in ([(2, 2), (2, 3), (3, 3)] if tier == "quick" else [(2, 2), (2, 3), (3, 2), (3, 3), (2, 4)])]


def spot(tier, rng):
    """grids far beyond the exists-forall bound, is_active pinned to adversarial patterns (long diagonal chains) and a few
    seeded random ones; the solver decides over all rank assignments"""
    out = []
    shapes = [(4, 8), (8, 4), (4, 6), (5, 9)] if tier == "quick" else [(4, 8), (8, 4), (4, 6), (6, 4), (5, 9), (9, 5), (4, 12), (6, 10)]
    for (h, w) in shapes:
        pats = []
        for cells in (E.snake_cells(h, w), [(x, y) for (y, x) in E.snake_cells(w, h)]):
            for k in range(max(1, len(cells) - 2), len(cells) + 1):
                g = [False] * (h * w)
                for (y, x) in cells[:k]:
                    if 0 <= y < h and 0 <= x < w:
                        g[y * w + x] = True
                pats.append(g)
        for _ in range(4 if tier == "quick" else 12):
            g = [False] * (h * w)
            for _k in range(rng.randint(2, h * w // 3)):
                c = rng.randrange(h * w)
                y, x = divmod(c, w)
                if not any(0 <= yy < h and 0 <= xx < w and g[yy * w + xx] for yy, xx in ((y - 1, x), (y + 1, x), (y, x - 1), (y, x + 1))):
                    g[c] = True
            pats.append(g)
        out.append(dict(name="spot-grid%dx%d/nans" % (h, w), form="grid", h=h, w=w, fn="nans", mode="vars", patterns=pats))
    # two boards on one Solver, each pinned to a diagonal chain: every ordered pair of chains (chains in opposite directions need
    # opposite rank orders, which is only possible if the two calls do not share auxiliaries)
    for (h, w) in ([(4, 4)] if tier == "quick" else [(4, 4), (4, 5), (5, 5)]):
        def board(cells):
            g = [False] * (h * w)
            for (y, x) in cells:
                g[y * w + x] = True
            return g
        m = min(h, w)
        base = [board([(i, i) for i in range(m - 1)]), board([(i, i) for i in range(1, m)]), board([(i, w - 1 - i) for i in range(m - 1)]),
                board([(i, w - 1 - i) for i in range(1, m)]), board([(1, 1), (2, 2), (1, 3)]), board([(2, 1), (1, 2), (2, 3)]),
                board([(0, 1), (1, 0)]), board([]), board([(i, i) for i in range(m)])]
        pats = [a + b for a in base for b in base]
        out.append(dict(name="spot-grid2_%dx%d/nans" % (h, w), form="grid2", h=h, w=w, fn="nans", mode="vars", patterns=pats))
    return out


def key_of(d, kind):
    shape = ""
    if d["form"] == "grid":
        shape = ",shape=%s" % ("1xN|Nx1" if min(d["h"], d["w"]) == 1 else "HxW")
    return "%s,%s%s,%s" % (d["fn"], d["form"], shape, kind)


def run(tier, only=None):
    return E.run_engine_a(
        "C08", MOD, FILES, tier, only, instances, key_of, "not_adjacent(_and_not_segmenting)",
        ["cspuz.graph.active_vertices_not_adjacent", "cspuz.graph.active_vertices_not_adjacent_and_not_segmenting",
         "cspuz.graph.active_vertices_connected (through the graph form)", "cspuz.array.BoolArray2D.__getitem__ (shifted slices)"],
        {"grids": "every shape with h*w <= %s incl. all 1xN, Nx1" % ("9" if tier == "quick" else "12, + 4x4, 1x14, 14x1, 3x5, 5x3"),
         "graphs": "all simple graphs <= %d vertices up to isomorphism + named families" % (4 if tier == "quick" else 5)},
        ["larger grids/graphs (beyond h*w <= 12 only the pinned 'spot' patterns on grids up to 6x10 are decided: long diagonal chains and "
         "seeded random non-adjacent patterns, all rank assignments symbolic)"],
        E.EXPL + " Grid form and explicit-graph form on the same grid graph are both compared with the same specification, hence with each "
        "other. Spot mode: for grids up to 6x10 is_active is pinned to adversarial patterns and the solver decides over all auxiliaries.",
        spot=spot)


replay = E.generic_replay
