"""Rule specifications of the bundled puzzles, written from the published rules with the auxiliary-free spec library
(never from the puzzle modules).  One class per puzzle:

  instances(tier, rng) -> list of picklable descs
  call(mod, d)         -> the return value of the real solve_<puzzle>
  answers(ret)         -> list of the answer variables (the x of the queries), in a fixed order
  rule(d, A)           -> z3 Bool over A, where A maps the returned answer structure to z3 terms
"""
import itertools

import z3

from cspuz.array import Array1D, Array2D
from cspuz.grid_frame import BoolGridFrame

from ..ea import spec
from ..ea.spec import And, Or, count, grid_edges

T, F = z3.BoolVal(True), z3.BoolVal(False)


# ---- helpers ------------------------------------------------------------------------------------------------------------
def arr_vars(a):
    return list(a.data) if isinstance(a, (Array1D, Array2D)) else list(a)


def frame_vars(f):
    return list(f.horizontal.data) + list(f.vertical.data)


class Grid:
    """z3 terms of a returned h x w array"""

    def __init__(self, arr, env, h, w):
        self.h, self.w = h, w
        self.t = [[env.z(arr[y, x]) for x in range(w)] for y in range(h)]

    def __call__(self, y, x):
        return self.t[y][x]

    def inside(self, y, x):
        return 0 <= y < self.h and 0 <= x < self.w

    def flat(self):
        return [self.t[y][x] for y in range(self.h) for x in range(self.w)]

    def nb4(self, y, x):
        return [(yy, xx) for yy, xx in ((y - 1, x), (y + 1, x), (y, x - 1), (y, x + 1)) if self.inside(yy, xx)]


class Loop:
    """a loop drawn through the centres of an h x w board of cells: BoolGridFrame(solver, h-1, w-1).
    H(y,x): segment between cells (y,x)-(y,x+1); V(y,x): between (y,x)-(y+1,x); False outside."""

    def __init__(self, frame, env, h, w):
        self.h, self.w = h, w
        self.hz = [[env.z(frame.horizontal[y, x]) for x in range(w - 1)] for y in range(h)]
        self.vt = [[env.z(frame.vertical[y, x]) for x in range(w)] for y in range(h - 1)]

    def H(self, y, x):
        return self.hz[y][x] if 0 <= y < self.h and 0 <= x < self.w - 1 else F

    def V(self, y, x):
        return self.vt[y][x] if 0 <= y < self.h - 1 and 0 <= x < self.w else F

    def L(self, y, x):
        return self.H(y, x - 1)

    def R(self, y, x):
        return self.H(y, x)

    def U(self, y, x):
        return self.V(y - 1, x)

    def D(self, y, x):
        return self.V(y, x)

    def edges(self):
        es, on = [], []
        for y in range(self.h):
            for x in range(self.w - 1):
                es.append((y * self.w + x, y * self.w + x + 1))
                on.append(self.hz[y][x])
        for y in range(self.h - 1):
            for x in range(self.w):
                es.append((y * self.w + x, (y + 1) * self.w + x))
                on.append(self.vt[y][x])
        return es, on

    def single_loop(self):
        es, on = self.edges()
        return spec.single_cycle_or_empty(self.h * self.w, es, on)

    def visited(self, y, x):
        return Or([self.L(y, x), self.R(y, x), self.U(y, x), self.D(y, x)])


def rand_layout(rng, h, w, alphabet, density):
    return [[rng.choice(alphabet) if rng.random() < density else None for _ in range(w)] for _ in range(h)]


def shapes(max_cells, min_side=1, max_side=9):
    return [(h, w) for h in range(min_side, max_side + 1) for w in range(min_side, max_side + 1) if h * w <= max_cells]


def random_rooms(rng, h, w, nrooms):
    """a random partition of the board into connected rooms (list of cell lists)"""
    cells = [(y, x) for y in range(h) for x in range(w)]
    nrooms = max(1, min(nrooms, len(cells)))
    seeds = rng.sample(cells, nrooms)
    owner = {c: i for i, c in enumerate(seeds)}
    frontier = list(seeds)
    while len(owner) < len(cells):
        c = rng.choice(frontier)
        y, x = c
        nb = [(yy, xx) for yy, xx in ((y - 1, x), (y + 1, x), (y, x - 1), (y, x + 1)) if 0 <= yy < h and 0 <= xx < w and (yy, xx) not in owner]
        if not nb:
            frontier.remove(c)
            continue
        n = rng.choice(nb)
        owner[n] = owner[c]
        frontier.append(n)
    rooms = [[] for _ in range(nrooms)]
    for c in cells:
        rooms[owner[c]].append(c)
    return [r for r in rooms if r]


def all_room_partitions(h, w):
    """EVERY partition of the board into orthogonally connected rooms (12 on 2x2, 74 on 2x3): systematic room layouts"""
    cells = [(y, x) for y in range(h) for x in range(w)]
    out = []

    def conn(b):
        seen, todo = {b[0]}, [b[0]]
        bs = set(b)
        while todo:
            y, x = todo.pop()
            for q in ((y + 1, x), (y - 1, x), (y, x + 1), (y, x - 1)):
                if q in bs and q not in seen:
                    seen.add(q)
                    todo.append(q)
        return len(seen) == len(bs)

    def rec(i, blocks):
        if i == len(cells):
            if all(conn(b) for b in blocks):
                out.append([list(b) for b in blocks])
            return
        for b in blocks:
            b.append(cells[i])
            rec(i + 1, blocks)
            b.pop()
        blocks.append([cells[i]])
        rec(i + 1, blocks)
        blocks.pop()
    rec(0, [])
    return out


def room_ids(h, w, rooms):
    rid = [[-1] * w for _ in range(h)]
    for i, r in enumerate(rooms):
        for (y, x) in r:
            rid[y][x] = i
    return rid


def single_clue_layouts(shape_list, alphabet, blank, gh=0, gw=0):
    """systematic layouts: exactly one clue, at every position, every value of the alphabet (gh/gw: clue grid is larger
    than the board by that much, e.g. lattice-point clues)"""
    out = []
    for (h, w) in shape_list:
        for y in range(h + gh):
            for x in range(w + gw):
                for v in alphabet:
                    p = [[blank] * (w + gw) for _ in range(h + gh)]
                    p[y][x] = v
                    out.append((h, w, "at%d,%d=%s" % (y, x, v), p))
    return out


class Base:
    module = None
    fn = None
    min_cells = 1

    def answers(self, ret):
        out = []
        for a in ret[1:]:
            out += frame_vars(a) if isinstance(a, BoolGridFrame) else arr_vars(a)
        return out

    def name_of(self, d):
        return "%s/%s" % (self.module, d.get("tag", "?"))


# ---- puzzles -------------------------------------------------------------------------------------------------------------
class Sudoku(Base):
    module, fn = "sudoku", "solve_sudoku"

    def instances(self, tier, rng):
        out = []
        base = [[1, 2, 3, 4], [3, 4, 1, 2], [2, 1, 4, 3], [4, 3, 2, 1]]
        for k in range(12 if tier == "quick" else 80):
            p = [[0] * 4 for _ in range(4)]
            for _ in range(rng.randint(0, 7)):
                y, x = rng.randrange(4), rng.randrange(4)
                p[y][x] = base[y][x] if rng.random() < 0.7 else rng.randint(1, 4)
            out.append({"tag": "n2/%d" % k, "problem": p})

        # larger orders, with givens at the two-digit boundary (order 4 uses 1..16)
        full3 = [[(3 * (y % 3) + y // 3 + x) % 9 + 1 for x in range(9)] for y in range(9)]
        full4 = [[(4 * (y % 4) + y // 4 + x) % 16 + 1 for x in range(16)] for y in range(16)]
        for k in range(2 if tier == "quick" else 6):
            out.append({"tag": "n3/r%d" % k, "n": 3, "problem": [[full3[y][x] if rng.random() < 0.45 else 0 for x in range(9)] for y in range(9)]})
        p4 = [[full4[y][x] if rng.random() < 0.75 else 0 for x in range(16)] for y in range(16)]
        out.append({"tag": "n4/consistent", "n": 4, "problem": p4})
        bad = [row[:] for row in p4]
        bad[0][0], bad[0][1] = 16, 16                  # two equal two-digit givens in one row: no solution
        out.append({"tag": "n4/clash16", "n": 4, "problem": bad})
        return out

    def call(self, mod, d):
        return mod.solve_sudoku(d["problem"], n=d.get("n", 2))

    def rule(self, d, ret, env):
        n = d.get("n", 2)
        N = n * n
        g = Grid(ret[1], env, N, N)
        cs = []
        groups = [[(y, x) for x in range(N)] for y in range(N)] + [[(y, x) for y in range(N)] for x in range(N)]
        groups += [[(by * n + dy, bx * n + dx) for dy in range(n) for dx in range(n)] for by in range(n) for bx in range(n)]
        for grp in groups:
            cs.append(z3.Distinct([g(*a) for a in grp]))
        for y in range(N):
            for x in range(N):
                if d["problem"][y][x] >= 1:
                    cs.append(g(y, x) == d["problem"][y][x])
        return And(cs)


class Slitherlink(Base):
    module, fn = "slitherlink", "solve_slitherlink"

    def instances(self, tier, rng):
        out = []
        for (h, w) in shapes(4 if tier == "quick" else 6):
            n = 6 if tier == "quick" else 30
            out.append({"tag": "%dx%d/none" % (h, w), "h": h, "w": w, "problem": [[-1] * w for _ in range(h)]})
            out.append({"tag": "%dx%d/zeros" % (h, w), "h": h, "w": w, "problem": [[0] * w for _ in range(h)]})
            for k in range(n):
                p = rand_layout(rng, h, w, [0, 1, 2, 3, 3, 2, 4], rng.choice([0.3, 0.6, 1.0]))
                out.append({"tag": "%dx%d/r%d" % (h, w, k), "h": h, "w": w, "problem": [[-1 if v is None else v for v in row] for row in p]})
        for (h, w, tag, p) in single_clue_layouts([(1, 2), (2, 1), (2, 3), (3, 2)] if tier == "quick" else [(1, 2), (2, 1), (2, 3), (3, 2), (1, 4), (4, 1)], [0, 1, 2, 3], -1, 0, 0):
            out.append({"tag": "%dx%d/%s" % (h, w, tag), "h": h, "w": w, "problem": p})
        return out

    def call(self, mod, d):
        return mod.solve_slitherlink(d["h"], d["w"], d["problem"])

    def rule(self, d, ret, env):
        h, w = d["h"], d["w"]
        f = ret[1]
        # lattice points (h+1) x (w+1); horizontal[y,x] joins (y,x)-(y,x+1); vertical[y,x] joins (y,x)-(y+1,x)
        P = lambda y, x: y * (w + 1) + x   # noqa: E731
        es, on = [], []
        for y in range(h + 1):
            for x in range(w):
                es.append((P(y, x), P(y, x + 1)))
                on.append(env.z(f.horizontal[y, x]))
        for y in range(h):
            for x in range(w + 1):
                es.append((P(y, x), P(y + 1, x)))
                on.append(env.z(f.vertical[y, x]))
        cs = [spec.single_cycle_or_empty((h + 1) * (w + 1), es, on)]
        for y in range(h):
            for x in range(w):
                c = d["problem"][y][x]
                if c >= 0:
                    around = [env.z(f.horizontal[y, x]), env.z(f.horizontal[y + 1, x]), env.z(f.vertical[y, x]), env.z(f.vertical[y, x + 1])]
                    cs.append(count(around) == c)
        return And(cs)


class Masyu(Base):
    module, fn = "masyu", "solve_masyu"

    def instances(self, tier, rng):
        out = []
        for (h, w) in shapes(6 if tier == "quick" else 9, min_side=1):
            if h * w < 2:
                continue
            out.append({"tag": "%dx%d/none" % (h, w), "h": h, "w": w, "problem": [[0] * w for _ in range(h)]})
            for k in range(6 if tier == "quick" else 30):
                p = rand_layout(rng, h, w, [1, 2], rng.choice([0.15, 0.3, 0.6]))
                out.append({"tag": "%dx%d/r%d" % (h, w, k), "h": h, "w": w, "problem": [[0 if v is None else v for v in row] for row in p]})
        for (h, w, tag, p) in single_clue_layouts([(1, 3), (3, 1), (2, 3), (3, 2)] if tier == "quick" else [(1, 3), (3, 1), (2, 3), (3, 2), (2, 4), (4, 2), (3, 3)], [1, 2], 0, 0, 0):
            out.append({"tag": "%dx%d/%s" % (h, w, tag), "h": h, "w": w, "problem": p})
        return out

    def call(self, mod, d):
        return mod.solve_masyu(d["h"], d["w"], d["problem"])

    def rule(self, d, ret, env):
        h, w = d["h"], d["w"]
        lp = Loop(ret[1], env, h, w)
        cs = [lp.single_loop()]
        for y in range(h):
            for x in range(w):
                c = d["problem"][y][x]
                L, R, U, D = lp.L(y, x), lp.R(y, x), lp.U(y, x), lp.D(y, x)
                if c == 1:      # white: straight through, turning in the cell before and/or after
                    horiz = z3.And(L, R, z3.Or(z3.Not(lp.L(y, x - 1)), z3.Not(lp.R(y, x + 1))))
                    vert = z3.And(U, D, z3.Or(z3.Not(lp.U(y - 1, x)), z3.Not(lp.D(y + 1, x))))
                    cs.append(z3.Or(horiz, vert))
                elif c == 2:    # black: turns, and runs straight through both neighbouring cells
                    cs.append(z3.And(z3.Or(z3.And(L, lp.L(y, x - 1)), z3.And(R, lp.R(y, x + 1))),
                                     z3.Or(z3.And(U, lp.U(y - 1, x)), z3.And(D, lp.D(y + 1, x))),
                                     z3.Not(z3.And(L, R)), z3.Not(z3.And(U, D))))
        return And(cs)


class Yajilin(Base):
    module, fn = "yajilin", "solve_yajilin"

    def instances(self, tier, rng):
        out = []
        for (h, w) in shapes(6 if tier == "quick" else 9):
            if h * w < 2:
                continue
            out.append({"tag": "%dx%d/none" % (h, w), "h": h, "w": w, "problem": [[".."] * w for _ in range(h)]})
            for k in range(8 if tier == "quick" else 40):
                p = [[".."] * w for _ in range(h)]
                for _ in range(rng.randint(1, 2)):
                    y, x = rng.randrange(h), rng.randrange(w)
                    p[y][x] = rng.choice(["??"] + [dch + str(n) for dch in "^v<>" for n in (0, 1, 2)])
                out.append({"tag": "%dx%d/r%d" % (h, w, k), "h": h, "w": w, "problem": p})
            # systematic: one arrow clue in every cell, every direction, counts 0 and 1 (2 on the longer boards); one '??' clue
            for y in range(h):
                for x in range(w):
                    p = [[".."] * w for _ in range(h)]
                    p[y][x] = "??"
                    out.append({"tag": "%dx%d/at%d,%d??" % (h, w, y, x), "h": h, "w": w, "problem": p})
            for y in range(h):
                for x in range(w):
                    for dch in "^v<>":
                        for n in ((0, 1) if tier == "quick" else (0, 1, 2)):
                            p = [[".."] * w for _ in range(h)]
                            p[y][x] = dch + str(n)
                            out.append({"tag": "%dx%d/at%d,%d%s%d" % (h, w, y, x, dch, n), "h": h, "w": w, "problem": p})
        for (h, w) in ([(4, 2), (2, 4)] if tier == "quick" else [(4, 2), (2, 4), (5, 2), (2, 5), (5, 3), (3, 5)]):
            for (y, x) in ((0, 0), (h - 1, w - 1), (0, w - 1), (h - 1, 0)):
                for dch in "^v<>":
                    for n in (0, 1, 2):
                        p = [[".."] * w for _ in range(h)]
                        p[y][x] = dch + str(n)
                        out.append({"tag": "%dx%d/at%d,%d%s%d" % (h, w, y, x, dch, n), "h": h, "w": w, "problem": p})
        return out

    def call(self, mod, d):
        return mod.solve_yajilin(d["h"], d["w"], d["problem"])

    def answers(self, ret):
        return frame_vars(ret[1]) + arr_vars(ret[2])

    def rule(self, d, ret, env):
        h, w = d["h"], d["w"]
        lp = Loop(ret[1], env, h, w)
        bl = Grid(ret[2], env, h, w)
        cs = [lp.single_loop()]
        for y in range(h):
            for x in range(w):
                for (yy, xx) in ((y + 1, x), (y, x + 1)):
                    if bl.inside(yy, xx):
                        cs.append(z3.Not(z3.And(bl(y, x), bl(yy, xx))))
                c = d["problem"][y][x]
                if c == "..":
                    cs.append(z3.Xor(bl(y, x), lp.visited(y, x)))
                else:
                    cs.append(z3.Not(bl(y, x)))
                    cs.append(z3.Not(lp.visited(y, x)))
                    if c != "??":
                        n = int(c[1:])
                        ray = {"^": [(yy, x) for yy in range(0, y)], "v": [(yy, x) for yy in range(y + 1, h)],
                               "<": [(y, xx) for xx in range(0, x)], ">": [(y, xx) for xx in range(x + 1, w)]}[c[0]]
                        cs.append(count(bl(*p) for p in ray) == n)
        return And(cs)


class Nurikabe(Base):
    module, fn = "nurikabe", "solve_nurikabe"
    note = "a board whose wall would be empty is read as having no solution (the module's reading; the published rule is silent)"

    def instances(self, tier, rng):
        out = []
        for (h, w) in shapes(6 if tier == "quick" else 9):
            for k in range(8 if tier == "quick" else 40):
                p = [[0] * w for _ in range(h)]
                for _ in range(rng.randint(1, 3)):
                    p[rng.randrange(h)][rng.randrange(w)] = rng.choice([1, 1, 2, 2, 3, 4, -1])
                out.append({"tag": "%dx%d/r%d" % (h, w, k), "h": h, "w": w, "problem": p})
        for (h, w, tag, p) in single_clue_layouts([(1, 3), (3, 1), (2, 3), (3, 2)] if tier == "quick" else [(1, 3), (3, 1), (2, 3), (3, 2), (2, 4), (4, 2), (3, 3)], [1, 2, 3, -1], 0, 0, 0):
            out.append({"tag": "%dx%d/%s" % (h, w, tag), "h": h, "w": w, "problem": p})
        return out

    def call(self, mod, d):
        return mod.solve_nurikabe(d["h"], d["w"], d["problem"])

    def rule(self, d, ret, env):
        h, w = d["h"], d["w"]
        wh = Grid(ret[1], env, h, w)
        n, es = h * w, grid_edges(h, w)
        white = wh.flat()
        black = [z3.Not(t) for t in white]
        cs = [spec.connected(n, es, black), Or(black)]
        for y in range(h - 1):
            for x in range(w - 1):
                cs.append(Or([wh(y, x), wh(y + 1, x), wh(y, x + 1), wh(y + 1, x + 1)]))
        C = spec.closure(n, es, white, [T] * len(es))
        clues = [(y * w + x, d["problem"][y][x]) for y in range(h) for x in range(w) if d["problem"][y][x] != 0]
        for (c, v) in clues:
            cs.append(white[c])
            if v > 0:
                cs.append(count(C[c][u] for u in range(n)) == v)
        for (c1, _), (c2, _) in itertools.combinations(clues, 2):
            cs.append(z3.Not(C[c1][c2]))
        for u in range(n):
            cs.append(z3.Implies(white[u], Or(C[c][u] for c, _ in clues)))
        return And(cs)


class Heyawake(Base):
    module, fn = "heyawake", "solve_heyawake"

    def instances(self, tier, rng):
        out = []
        for (h, w) in shapes(6 if tier == "quick" else 10):
            for k in range(8 if tier == "quick" else 40):
                rooms = random_rooms(rng, h, w, rng.randint(1, 4))
                clues = [rng.choice([-1, -1, 0, 1, 2]) for _ in rooms]
                out.append({"tag": "%dx%d/r%d" % (h, w, k), "h": h, "w": w, "rooms": rooms, "clues": clues})
        # every room layout of the small boards, clue-free (the border-crossing rule depends on the layout only)
        for (h, w) in ([(2, 3), (3, 2), (1, 3), (1, 4), (3, 1)] if tier == "quick" else [(2, 3), (3, 2), (1, 3), (1, 4), (3, 1), (4, 1), (2, 4), (4, 2), (1, 5)]):
            for i, rooms in enumerate(all_room_partitions(h, w)):
                out.append({"tag": "%dx%d/all%d" % (h, w, i), "h": h, "w": w, "rooms": rooms, "clues": [-1] * len(rooms)})
        return out

    def call(self, mod, d):
        return mod.solve_heyawake(d["h"], d["w"], [list(map(tuple, r)) for r in d["rooms"]], d["clues"])

    def rule(self, d, ret, env):
        h, w = d["h"], d["w"]
        b = Grid(ret[1], env, h, w)
        n, es = h * w, grid_edges(h, w)
        black = b.flat()
        cs = [spec.not_adjacent(n, es, black), spec.connected(n, es, [z3.Not(t) for t in black])]
        rid = room_ids(h, w, d["rooms"])
        for r, c in zip(d["rooms"], d["clues"]):
            if c >= 0:
                cs.append(count(b(y, x) for (y, x) in r) == c)
        # a straight run of white cells may not cross two room borders
        for y in range(h):
            for x1 in range(w):
                for x2 in range(x1 + 1, w):
                    if sum(1 for x in range(x1, x2) if rid[y][x] != rid[y][x + 1]) >= 2:
                        cs.append(Or(b(y, x) for x in range(x1, x2 + 1)))
        for x in range(w):
            for y1 in range(h):
                for y2 in range(y1 + 1, h):
                    if sum(1 for y in range(y1, y2) if rid[y][x] != rid[y + 1][x]) >= 2:
                        cs.append(Or(b(y, x) for y in range(y1, y2 + 1)))
        return And(cs)


class Akari(Base):
    module, fn = "akari", "solve_akari"

    def instances(self, tier, rng):
        out = []
        for (h, w) in shapes(6 if tier == "quick" else 9):
            out.append({"tag": "%dx%d/open" % (h, w), "h": h, "w": w, "problem": [[-2] * w for _ in range(h)]})
            for k in range(8 if tier == "quick" else 40):
                p = rand_layout(rng, h, w, [-1, -1, 0, 1, 2, 3, 4], rng.choice([0.15, 0.3, 0.5]))
                out.append({"tag": "%dx%d/r%d" % (h, w, k), "h": h, "w": w, "problem": [[-2 if v is None else v for v in row] for row in p]})
        for (h, w, tag, p) in single_clue_layouts([(1, 3), (3, 1), (2, 3), (3, 2)] if tier == "quick" else [(1, 3), (3, 1), (2, 3), (3, 2), (2, 4), (4, 2), (3, 3)], [-1, 0, 1, 2], -2, 0, 0):
            out.append({"tag": "%dx%d/%s" % (h, w, tag), "h": h, "w": w, "problem": p})
        return out

    def call(self, mod, d):
        return mod.solve_akari(d["h"], d["w"], d["problem"])

    def rule(self, d, ret, env):
        h, w = d["h"], d["w"]
        lt = Grid(ret[1], env, h, w)
        p = d["problem"]
        wall = lambda y, x: p[y][x] >= -1   # noqa: E731
        cs = []

        def sees(y, x):
            out = []
            for dy, dx in ((-1, 0), (1, 0), (0, -1), (0, 1)):
                yy, xx = y + dy, x + dx
                while 0 <= yy < h and 0 <= xx < w and not wall(yy, xx):
                    out.append((yy, xx))
                    yy, xx = yy + dy, xx + dx
            return out
        for y in range(h):
            for x in range(w):
                if wall(y, x):
                    cs.append(z3.Not(lt(y, x)))
                    if p[y][x] >= 0:
                        cs.append(count(lt(*q) for q in lt.nb4(y, x) if not wall(*q)) == p[y][x])
                else:
                    vis = sees(y, x)
                    cs.append(Or([lt(y, x)] + [lt(*q) for q in vis]))
                    for q in vis:
                        cs.append(z3.Not(z3.And(lt(y, x), lt(*q))))
        return And(cs)


class Norinori(Base):
    module, fn = "norinori", "solve_norinori"

    def instances(self, tier, rng):
        out = []
        for (h, w) in shapes(8 if tier == "quick" else 12):
            if h * w < 2:
                continue
            for k in range(6 if tier == "quick" else 30):
                out.append({"tag": "%dx%d/r%d" % (h, w, k), "h": h, "w": w, "rooms": random_rooms(rng, h, w, rng.randint(1, 3))})
        for (h, w) in ([(2, 3), (3, 2), (2, 2)] if tier == "quick" else [(2, 3), (3, 2), (2, 2), (2, 4), (4, 2), (1, 4)]):
            for i, rooms in enumerate(all_room_partitions(h, w)):
                out.append({"tag": "%dx%d/all%d" % (h, w, i), "h": h, "w": w, "rooms": rooms})
        return out

    def call(self, mod, d):
        return mod.solve_norinori(d["h"], d["w"], [list(map(tuple, r)) for r in d["rooms"]])

    def rule(self, d, ret, env):
        h, w = d["h"], d["w"]
        b = Grid(ret[1], env, h, w)
        cs = []
        for y in range(h):
            for x in range(w):
                cs.append(z3.Implies(b(y, x), count(b(*q) for q in b.nb4(y, x)) == 1))
        for r in d["rooms"]:
            cs.append(count(b(y, x) for (y, x) in r) == 2)
        return And(cs)


class StarBattle(Base):
    module, fn = "star_battle", "solve_star_battle"

    def instances(self, tier, rng):
        out = []
        for n in ((2, 3, 4) if tier == "quick" else (1, 2, 3, 4, 5)):
            for k in range(5 if tier == "quick" else 25):
                # n blocks from a random connected partition with exactly n rooms
                for _try in range(50):
                    rooms = random_rooms(rng, n, n, n)
                    if len(rooms) == n:
                        break
                else:
                    continue
                out.append({"tag": "n%d/r%d" % (n, k), "n": n, "k": 1 if n < 5 or rng.random() < 0.7 else 2, "blocks": room_ids(n, n, rooms)})

        # row / column stripes as blocks (the block rule then coincides with a line rule), two stars per line
        for n in ((5, 6, 8, 9, 10) if tier == "quick" else (5, 6, 7, 8, 9, 10, 11)):
            out.append({"tag": "n%d/k2/rows" % n, "n": n, "k": 2, "blocks": [[y] * n for y in range(n)]})
            out.append({"tag": "n%d/k2/cols" % n, "n": n, "k": 2, "blocks": [list(range(n)) for _ in range(n)]})
        for n in ((8, 9) if tier == "quick" else (8, 9, 10)):
            for k in range(2 if tier == "quick" else 4):
                for _try in range(80):
                    rooms = random_rooms(rng, n, n, n)
                    if len(rooms) == n and min(len(r) for r in rooms) >= 4:
                        break
                else:
                    continue
                out.append({"tag": "n%d/k2/r%d" % (n, k), "n": n, "k": 2, "blocks": room_ids(n, n, rooms)})
        return out

    def call(self, mod, d):
        return mod.solve_star_battle(d["n"], d["blocks"], d["k"])

    def rule(self, d, ret, env):
        n, k = d["n"], d["k"]
        s = Grid(ret[1], env, n, n)
        cs = []
        for i in range(n):
            cs.append(count(s(i, x) for x in range(n)) == k)
            cs.append(count(s(y, i) for y in range(n)) == k)
            cs.append(count(s(y, x) for y in range(n) for x in range(n) if d["blocks"][y][x] == i) == k)
        for y in range(n):
            for x in range(n):
                for dy, dx in ((0, 1), (1, 0), (1, 1), (1, -1)):
                    if s.inside(y + dy, x + dx):
                        cs.append(z3.Not(z3.And(s(y, x), s(y + dy, x + dx))))
        return And(cs)


class Fillomino(Base):
    module, fn = "fillomino", "solve_fillomino"

    def instances(self, tier, rng):
        out = []
        for (h, w) in shapes(4 if tier == "quick" else 6):
            out.append({"tag": "%dx%d/none" % (h, w), "h": h, "w": w, "problem": [[0] * w for _ in range(h)]})
            for k in range(5 if tier == "quick" else 25):
                p = rand_layout(rng, h, w, [1, 2, 2, 3, 4], rng.choice([0.3, 0.6]))
                out.append({"tag": "%dx%d/r%d" % (h, w, k), "h": h, "w": w, "problem": [[0 if v is None else v for v in row] for row in p]})
        for (h, w, tag, p) in single_clue_layouts([(1, 3), (3, 1), (2, 2)] if tier == "quick" else [(1, 3), (3, 1), (2, 2), (2, 3), (3, 2)], [1, 2, 3, 4], 0, 0, 0):
            out.append({"tag": "%dx%d/%s" % (h, w, tag), "h": h, "w": w, "problem": p})
        for (h, w) in [(2, 3), (3, 2)]:
            out.append({"tag": "%dx%d/none-wide" % (h, w), "h": h, "w": w, "problem": [[0] * w for _ in range(h)]})
            p = [[0] * w for _ in range(h)]
            p[0][0] = 3
            out.append({"tag": "%dx%d/corner3-r0" % (h, w), "h": h, "w": w, "problem": p})
        # the checkered variant (regions 2-colourable so that regions sharing a border differ): clue-free and sampled layouts
        for d in list(out):
            if d["h"] * d["w"] <= (6 if tier == "quick" else 8) and ("none" in d["tag"] or d["tag"].endswith(("r0", "r1", "r2"))):
                e = dict(d)
                e["checkered"] = True
                e["tag"] = d["tag"] + "/checkered"
                out.append(e)
        return out

    def call(self, mod, d):
        if d.get("checkered"):
            return mod.solve_fillomino(d["h"], d["w"], d["problem"], checkered=True)
        return mod.solve_fillomino(d["h"], d["w"], d["problem"])

    def rule(self, d, ret, env):
        h, w = d["h"], d["w"]
        sz = Grid(ret[1], env, h, w)
        n, es = h * w, grid_edges(h, w)
        v = sz.flat()
        C = spec.closure(n, es, [T] * n, [v[a] == v[b] for (a, b) in es])
        cs = [count(C[u][t] for t in range(n)) == v[u] for u in range(n)]
        for y in range(h):
            for x in range(w):
                if d["problem"][y][x] >= 1:
                    cs.append(sz(y, x) == d["problem"][y][x])
        if d.get("checkered"):
            # some 2-colouring of the cells changes colour exactly across region borders (cell 0 white w.l.o.g.): written out as a
            # disjunction over all colourings, so the specification stays quantifier- and auxiliary-free
            alts = []
            for m in range(1 << (n - 1)):
                col = [False] + [bool((m >> k) & 1) for k in range(n - 1)]
                alts.append(And([(v[a] != v[b]) if col[a] != col[b] else (v[a] == v[b]) for (a, b) in es]))
            cs.append(Or(alts))
        return And(cs)


class Nurimisaki(Base):
    module, fn = "nurimisaki", "solve_nurimisaki"
    note = "clue value 1 is not generated (a cape has a white neighbour, so a run of length 1 is contradictory in the rules' own terms)"

    def instances(self, tier, rng):
        out = []
        for (h, w) in shapes(6 if tier == "quick" else 9):
            out.append({"tag": "%dx%d/none" % (h, w), "h": h, "w": w, "problem": [[-1] * w for _ in range(h)]})
            for k in range(8 if tier == "quick" else 40):
                p = [[-1] * w for _ in range(h)]
                for _ in range(rng.randint(1, 2)):
                    p[rng.randrange(h)][rng.randrange(w)] = rng.choice([0, 0, 2, 2, 3])
                out.append({"tag": "%dx%d/r%d" % (h, w, k), "h": h, "w": w, "problem": p})
        for (h, w, tag, p) in single_clue_layouts([(1, 3), (3, 1), (2, 3), (3, 2), (1, 4), (4, 1)] if tier == "quick" else [(1, 3), (3, 1), (2, 3), (3, 2), (1, 4), (4, 1), (2, 4), (4, 2), (3, 3)], [0, 2, 3], -1, 0, 0):
            out.append({"tag": "%dx%d/%s" % (h, w, tag), "h": h, "w": w, "problem": p})
        return out

    def call(self, mod, d):
        return mod.solve_nurimisaki(d["h"], d["w"], d["problem"])

    def rule(self, d, ret, env):
        h, w = d["h"], d["w"]
        wh = Grid(ret[1], env, h, w)
        n, es = h * w, grid_edges(h, w)
        cs = [spec.connected(n, es, wh.flat())]
        for y in range(h - 1):
            for x in range(w - 1):
                q = [wh(y, x), wh(y + 1, x), wh(y, x + 1), wh(y + 1, x + 1)]
                cs.append(Or(q))
                cs.append(z3.Not(And(q)))
        for y in range(h):
            for x in range(w):
                deg = count(wh(*q) for q in wh.nb4(y, x))
                c = d["problem"][y][x]
                if c == -1:
                    cs.append(z3.Implies(wh(y, x), deg != 1))
                else:
                    cs.append(wh(y, x))
                    cs.append(deg == 1)
                    if c > 0:
                        opts = []
                        for dy, dx in ((-1, 0), (1, 0), (0, -1), (0, 1)):
                            run = [(y + dy * i, x + dx * i) for i in range(1, c)]
                            end = (y + dy * c, x + dx * c)
                            if c >= 2 and all(wh.inside(*q) for q in run):
                                o = And(wh(*q) for q in run)
                                if wh.inside(*end):
                                    o = z3.And(o, z3.Not(wh(*end)))
                                opts.append(o)
                        cs.append(Or(opts))
        return And(cs)


class Yinyang(Base):
    module, fn = "yinyang", "solve_yinyang"

    def instances(self, tier, rng):
        out = []
        for (h, w) in [(3, 4), (4, 3), (3, 5), (2, 6)]:       # clue-free boards wide enough for every side to have interior cells
            out.append({"tag": "%dx%d/none-wide" % (h, w), "h": h, "w": w, "problem": [[0] * w for _ in range(h)]})
        for (h, w) in shapes(8 if tier == "quick" else 12, min_side=2):
            out.append({"tag": "%dx%d/none" % (h, w), "h": h, "w": w, "problem": [[0] * w for _ in range(h)]})
            for k in range(6 if tier == "quick" else 30):
                p = rand_layout(rng, h, w, [1, 2], rng.choice([0.2, 0.4]))
                out.append({"tag": "%dx%d/r%d" % (h, w, k), "h": h, "w": w, "problem": [[0 if v is None else v for v in row] for row in p]})
        for (h, w, tag, p) in single_clue_layouts([(2, 3), (3, 2)] if tier == "quick" else [(2, 3), (3, 2), (2, 4), (4, 2), (3, 3)], [1, 2], 0, 0, 0):
            out.append({"tag": "%dx%d/%s" % (h, w, tag), "h": h, "w": w, "problem": p})
        return out

    def call(self, mod, d):
        return mod.solve_yinyang(d["h"], d["w"], d["problem"])

    def rule(self, d, ret, env):
        h, w = d["h"], d["w"]
        b = Grid(ret[1], env, h, w)
        n, es = h * w, grid_edges(h, w)
        cs = [spec.connected(n, es, b.flat()), spec.connected(n, es, [z3.Not(t) for t in b.flat()])]
        for y in range(h - 1):
            for x in range(w - 1):
                q = [b(y, x), b(y + 1, x), b(y, x + 1), b(y + 1, x + 1)]
                cs.append(Or(q))
                cs.append(z3.Not(And(q)))
        for y in range(h):
            for x in range(w):
                if d["problem"][y][x] == 1:
                    cs.append(z3.Not(b(y, x)))
                elif d["problem"][y][x] == 2:
                    cs.append(b(y, x))
        return And(cs)


class Creek(Base):
    module, fn = "creek", "solve_creek"

    def instances(self, tier, rng):
        out = []
        for (h, w) in shapes(6 if tier == "quick" else 9):
            for k in range(8 if tier == "quick" else 40):
                p = rand_layout(rng, h + 1, w + 1, [0, 1, 1, 2, 2, 3, 4], rng.choice([0.2, 0.4, 0.8]))
                out.append({"tag": "%dx%d/r%d" % (h, w, k), "h": h, "w": w, "problem": [[-1 if v is None else v for v in row] for row in p]})
        for (h, w, tag, p) in single_clue_layouts([(1, 2), (2, 1), (2, 3), (3, 2)] if tier == "quick" else [(1, 2), (2, 1), (2, 3), (3, 2), (1, 4), (4, 1)], [0, 1, 2, 3, 4], -1, 1, 1):
            out.append({"tag": "%dx%d/%s" % (h, w, tag), "h": h, "w": w, "problem": p})
        return out

    def call(self, mod, d):
        return mod.solve_creek(d["h"], d["w"], d["problem"])

    def rule(self, d, ret, env):
        h, w = d["h"], d["w"]
        wh = Grid(ret[1], env, h, w)
        cs = [spec.connected(h * w, grid_edges(h, w), wh.flat())]
        for y in range(h + 1):
            for x in range(w + 1):
                c = d["problem"][y][x]
                if c >= 0:
                    touching = [(yy, xx) for yy in (y - 1, y) for xx in (x - 1, x) if wh.inside(yy, xx)]
                    cs.append(count(z3.Not(wh(*q)) for q in touching) == c)
        return And(cs)


class Gokigen(Base):
    module, fn = "gokigen", "solve_gokigen"

    def instances(self, tier, rng):
        out = []
        for (h, w) in shapes(4 if tier == "quick" else 6):
            out.append({"tag": "%dx%d/none" % (h, w), "h": h, "w": w, "problem": [[-1] * (w + 1) for _ in range(h + 1)]})
            for k in range(8 if tier == "quick" else 40):
                p = rand_layout(rng, h + 1, w + 1, [0, 1, 1, 2, 2, 3, 4], rng.choice([0.2, 0.5]))
                out.append({"tag": "%dx%d/r%d" % (h, w, k), "h": h, "w": w, "problem": [[-1 if v is None else v for v in row] for row in p]})
        for (h, w, tag, p) in single_clue_layouts([(1, 2), (2, 1), (2, 2)] if tier == "quick" else [(1, 2), (2, 1), (2, 2), (2, 3), (3, 2)], [0, 1, 2, 3, 4], -1, 1, 1):
            out.append({"tag": "%dx%d/%s" % (h, w, tag), "h": h, "w": w, "problem": p})
        return out

    def call(self, mod, d):
        return mod.solve_gokigen(d["h"], d["w"], d["problem"])

    def rule(self, d, ret, env):
        h, w = d["h"], d["w"]
        t = Grid(ret[1], env, h, w)      # true: '\' joining (y,x)-(y+1,x+1); false: '/' joining (y,x+1)-(y+1,x)
        P = lambda y, x: y * (w + 1) + x   # noqa: E731
        es, on = [], []
        for y in range(h):
            for x in range(w):
                es.append((P(y, x), P(y + 1, x + 1)))
                on.append(t(y, x))
                es.append((P(y, x + 1), P(y + 1, x)))
                on.append(z3.Not(t(y, x)))
        cs = [spec.forest((h + 1) * (w + 1), es, on)]
        for y in range(h + 1):
            for x in range(w + 1):
                c = d["problem"][y][x]
                if c >= 0:
                    touching = []
                    if y > 0 and x > 0:
                        touching.append(t(y - 1, x - 1))
                    if y > 0 and x < w:
                        touching.append(z3.Not(t(y - 1, x)))
                    if y < h and x > 0:
                        touching.append(z3.Not(t(y, x - 1)))
                    if y < h and x < w:
                        touching.append(t(y, x))
                    cs.append(count(touching) == c)
        return And(cs)


class Aquarium(Base):
    module, fn = "aquarium", "solve_aquarium"
    note = "tanks are generated row-convex (each tank's cells in a row are contiguous); for other tanks the published rule has two readings"

    def instances(self, tier, rng):
        out = []
        for (h, w) in shapes(6 if tier == "quick" else 9):
            for k in range(8 if tier == "quick" else 40):
                for _try in range(30):
                    rooms = random_rooms(rng, h, w, rng.randint(1, 3))
                    rid = room_ids(h, w, rooms)
                    ok = True
                    for i in range(len(rooms)):
                        for y in range(h):
                            xs = [x for x in range(w) if rid[y][x] == i]
                            if xs and xs != list(range(xs[0], xs[-1] + 1)):
                                ok = False
                    if ok:
                        break
                else:
                    continue
                cr = [rng.choice([-1, -1, 0, 1, 2]) for _ in range(h)]
                cc = [rng.choice([-1, -1, 0, 1, 2]) for _ in range(w)]
                out.append({"tag": "%dx%d/r%d" % (h, w, k), "h": h, "w": w, "rooms": rooms, "row": cr, "col": cc})
        # every row-convex tank layout of the small boards, clue-free (gravity and level rules depend on the layout only)
        for (h, w) in ([(2, 2), (2, 3), (3, 2)] if tier == "quick" else [(2, 2), (2, 3), (3, 2), (2, 4), (4, 2), (3, 3)]):
            for i, rooms in enumerate(all_room_partitions(h, w)):
                rid = room_ids(h, w, rooms)
                if any(xs != list(range(xs[0], xs[-1] + 1)) for k in range(len(rooms)) for y in range(h)
                       for xs in [[x for x in range(w) if rid[y][x] == k]] if xs):
                    continue
                out.append({"tag": "%dx%d/all%d" % (h, w, i), "h": h, "w": w, "rooms": rooms, "row": [-1] * h, "col": [-1] * w})
        return out

    def call(self, mod, d):
        return mod.solve_aquarium(d["h"], d["w"], [list(map(tuple, r)) for r in d["rooms"]], d["row"], d["col"])

    def rule(self, d, ret, env):
        h, w = d["h"], d["w"]
        wt = Grid(ret[1], env, h, w)
        cs = []
        for y in range(h):
            if d["row"][y] >= 0:
                cs.append(count(wt(y, x) for x in range(w)) == d["row"][y])
        for x in range(w):
            if d["col"][x] >= 0:
                cs.append(count(wt(y, x) for y in range(h)) == d["col"][x])
        for r in d["rooms"]:
            r = [tuple(c) for c in r]
            for a in r:
                for b in r:
                    if a[0] == b[0] and a < b:
                        cs.append(wt(*a) == wt(*b))            # one water level per tank row
                    if a[0] < b[0]:
                        cs.append(z3.Implies(wt(*a), wt(*b)))   # water never sits above air inside a tank
        return And(cs)


class Building(Base):
    module, fn = "building", "solve_building"

    def instances(self, tier, rng):
        out = []
        for n in ((2, 3) if tier == "quick" else (1, 2, 3, 4)):
            for k in range(8 if tier == "quick" else 40):
                mk = lambda: [rng.choice([0, 0, 1, 2, 3][: n + 2]) for _ in range(n)]   # noqa: E731
                out.append({"tag": "n%d/r%d" % (n, k), "n": n, "up": mk(), "dw": mk(), "lf": mk(), "rg": mk()})
        return out

    def call(self, mod, d):
        return mod.solve_building(d["n"], d["up"], d["dw"], d["lf"], d["rg"])

    def rule(self, d, ret, env):
        n = d["n"]
        a = Grid(ret[1], env, n, n)
        cs = []
        for i in range(n):
            for j, k in itertools.combinations(range(n), 2):
                cs.append(a(i, j) != a(i, k))
                cs.append(a(j, i) != a(k, i))

        def visible(line):
            return count(And(line[j] < line[i] for j in range(i)) for i in range(len(line)))
        for i in range(n):
            col = [a(y, i) for y in range(n)]
            row = [a(i, x) for x in range(n)]
            for clue, line in ((d["up"][i], col), (d["dw"][i], col[::-1]), (d["lf"][i], row), (d["rg"][i], row[::-1])):
                if clue >= 1:
                    cs.append(visible(line) == clue)
        return And(cs)


class Doppelblock(Base):
    module, fn = "doppelblock", "solve_doppelblock"

    def instances(self, tier, rng):
        out = []
        for n in ((3, 4) if tier == "quick" else (3, 4, 5)):
            for k in range(8 if tier == "quick" else 40):
                mk = lambda: [rng.choice([-1, -1, 0, 1, 2, 3]) for _ in range(n)]   # noqa: E731
                out.append({"tag": "n%d/r%d" % (n, k), "n": n, "row": mk(), "col": mk()})
        return out

    def call(self, mod, d):
        return mod.solve_doppelblock(d["n"], d["row"], d["col"])

    def rule(self, d, ret, env):
        n = d["n"]
        a = Grid(ret[1], env, n, n)
        cs = []

        def line_ok(line, clue):
            out = [count(v == 0 for v in line) == 2]
            for k in range(1, n - 1):
                out.append(count(v == k for v in line) == 1)
            if clue >= 0:
                between = [z3.If(z3.And(Or(line[j] == 0 for j in range(i)), Or(line[j] == 0 for j in range(i + 1, n))), line[i], 0)
                           for i in range(n)]
                out.append(z3.Sum(between) == clue)
            return out
        for i in range(n):
            cs += line_ok([a(i, x) for x in range(n)], d["row"][i])
            cs += line_ok([a(y, i) for y in range(n)], d["col"][i])
        return And(cs)


class Putteria(Base):
    module, fn = "putteria", "solve_putteria"

    def instances(self, tier, rng):
        out = []
        for (h, w) in shapes(8 if tier == "quick" else 12):
            for k in range(6 if tier == "quick" else 30):
                out.append({"tag": "%dx%d/r%d" % (h, w, k), "h": h, "w": w, "rooms": random_rooms(rng, h, w, rng.randint(1, 4))})
        for (h, w) in ([(2, 3), (3, 2), (2, 2)] if tier == "quick" else [(2, 3), (3, 2), (2, 2), (2, 4), (4, 2), (1, 4)]):
            for i, rooms in enumerate(all_room_partitions(h, w)):
                out.append({"tag": "%dx%d/all%d" % (h, w, i), "h": h, "w": w, "rooms": rooms})
        return out

    def call(self, mod, d):
        return mod.solve_putteria(d["h"], d["w"], [list(map(tuple, r)) for r in d["rooms"]])

    def rule(self, d, ret, env):
        h, w = d["h"], d["w"]
        num = Grid(ret[1], env, h, w)
        size = [[0] * w for _ in range(h)]
        cs = []
        for r in d["rooms"]:
            cs.append(count(num(y, x) for (y, x) in r) == 1)
            for (y, x) in r:
                size[y][x] = len(r)
        for y in range(h):
            for x in range(w):
                for (yy, xx) in ((y + 1, x), (y, x + 1)):
                    if num.inside(yy, xx):
                        cs.append(z3.Not(z3.And(num(y, x), num(yy, xx))))
                for xx in range(x + 1, w):
                    if size[y][x] == size[y][xx]:
                        cs.append(z3.Not(z3.And(num(y, x), num(y, xx))))
                for yy in range(y + 1, h):
                    if size[y][x] == size[yy][x]:
                        cs.append(z3.Not(z3.And(num(y, x), num(yy, x))))
        return And(cs)


class Geradeweg(Base):
    module, fn = "geradeweg", "solve_geradeweg"

    def instances(self, tier, rng):
        out = []
        for (h, w) in shapes(6 if tier == "quick" else 9):
            if h * w < 2:
                continue
            for k in range(8 if tier == "quick" else 40):
                p = [[0] * w for _ in range(h)]
                for _ in range(rng.randint(1, 2)):
                    p[rng.randrange(h)][rng.randrange(w)] = rng.choice([1, 1, 2, 2, 3])
                out.append({"tag": "%dx%d/r%d" % (h, w, k), "h": h, "w": w, "problem": p})
        for (h, w, tag, p) in single_clue_layouts([(1, 3), (3, 1), (2, 3), (3, 2)] if tier == "quick" else [(1, 3), (3, 1), (2, 3), (3, 2), (2, 4), (4, 2), (3, 3)], [1, 2, 3], 0, 0, 0):
            out.append({"tag": "%dx%d/%s" % (h, w, tag), "h": h, "w": w, "problem": p})
        return out

    def call(self, mod, d):
        return mod.solve_geradeweg(d["h"], d["w"], d["problem"])

    def rule(self, d, ret, env):
        h, w = d["h"], d["w"]
        lp = Loop(ret[1], env, h, w)
        cs = [lp.single_loop()]
        for y in range(h):
            for x in range(w):
                c = d["problem"][y][x]
                if c >= 1:
                    cs.append(lp.visited(y, x))
                    # length of the straight run through (y,x): horizontally / vertically
                    left = z3.Sum([z3.If(And(lp.H(y, xx) for xx in range(x0, x)), 1, 0) for x0 in range(0, x)] or [z3.IntVal(0)])
                    right = z3.Sum([z3.If(And(lp.H(y, xx) for xx in range(x, x1 + 1)), 1, 0) for x1 in range(x, w - 1)] or [z3.IntVal(0)])
                    up = z3.Sum([z3.If(And(lp.V(yy, x) for yy in range(y0, y)), 1, 0) for y0 in range(0, y)] or [z3.IntVal(0)])
                    down = z3.Sum([z3.If(And(lp.V(yy, x) for yy in range(y, y1 + 1)), 1, 0) for y1 in range(y, h - 1)] or [z3.IntVal(0)])
                    cs.append(z3.Implies(z3.Or(lp.L(y, x), lp.R(y, x)), left + right == c))
                    cs.append(z3.Implies(z3.Or(lp.U(y, x), lp.D(y, x)), up + down == c))
        return And(cs)


class Compass(Base):
    module, fn = "compass", "solve_compass"

    def instances(self, tier, rng):
        out = []
        for (h, w) in shapes(6 if tier == "quick" else 8):
            if h * w < 2:
                continue
            for k in range(8 if tier == "quick" else 40):
                cells = rng.sample([(y, x) for y in range(h) for x in range(w)], rng.randint(1, min(3, h * w)))
                prob = [(y, x) + tuple(rng.choice([-1, -1, 0, 1, 2]) for _ in range(4)) for (y, x) in cells]
                out.append({"tag": "%dx%d/r%d" % (h, w, k), "h": h, "w": w, "problem": prob})

        # systematic: one compass at each cell with exactly one numbered direction (values 0, 1, 2), plus a second plain compass
        for (h, w) in [(2, 3), (3, 2), (1, 4), (4, 1)]:
            for y in range(h):
                for x in range(w):
                    for di in range(4):
                        for v in (0, 1, 2):
                            c = [-1, -1, -1, -1]
                            c[di] = v
                            prob = [(y, x) + tuple(c)]
                            other = (h - 1 - y, w - 1 - x)
                            if other != (y, x):
                                prob.append(other + (-1, -1, -1, -1))
                            out.append({"tag": "%dx%d/at%d,%d/dir%d=%d" % (h, w, y, x, di, v), "h": h, "w": w, "problem": prob})
        return out

    def call(self, mod, d):
        return mod.solve_compass(d["h"], d["w"], [tuple(p) for p in d["problem"]])

    def rule(self, d, ret, env):
        h, w = d["h"], d["w"]
        dv = Grid(ret[1], env, h, w)
        k = len(d["problem"])
        lab = dv.flat()
        cs = [spec.label_classes_connected(h * w, grid_edges(h, w), lab, k)]
        for i, (y, x, up, lf, dw, rg) in enumerate(d["problem"]):
            cs.append(dv(y, x) == i)
            mine = lambda yy, xx: dv(yy, xx) == i   # noqa: E731
            if up >= 0:
                cs.append(count(mine(yy, xx) for yy in range(0, y) for xx in range(w)) == up)
            if dw >= 0:
                cs.append(count(mine(yy, xx) for yy in range(y + 1, h) for xx in range(w)) == dw)
            if lf >= 0:
                cs.append(count(mine(yy, xx) for yy in range(h) for xx in range(0, x)) == lf)
            if rg >= 0:
                cs.append(count(mine(yy, xx) for yy in range(h) for xx in range(x + 1, w)) == rg)
        return And(cs)


# tetromino shapes for LITS: every placement of 4 connected cells inside a block, classified L / I / T / S (O is excluded
# by the 2x2 rule); classification by the multiset of within-shape degrees and straightness
def _tetromino_type(cells):
    cs = set(cells)
    deg = sorted(sum(1 for (dy, dx) in ((1, 0), (-1, 0), (0, 1), (0, -1)) if (y + dy, x + dx) in cs) for (y, x) in cells)
    ys, xs = set(y for y, _ in cells), set(x for _, x in cells)
    if len(ys) == 1 or len(xs) == 1:
        return "I"
    if deg == [1, 1, 1, 3]:
        return "T"
    if deg == [2, 2, 2, 2]:
        return "O"
    # L and S both have degrees [1,1,2,2]: L spans 3x2 with a full row of three, S does not
    rows = {}
    cols = {}
    for (y, x) in cells:
        rows[y] = rows.get(y, 0) + 1
        cols[x] = cols.get(x, 0) + 1
    return "L" if 3 in rows.values() or 3 in cols.values() else "S"


def _placements(block):
    bs = set(block)
    out = set()

    def grow(cur):
        if len(cur) == 4:
            out.add(tuple(sorted(cur)))
            return
        for (y, x) in list(cur):
            for dy, dx in ((1, 0), (-1, 0), (0, 1), (0, -1)):
                c = (y + dy, x + dx)
                if c in bs and c not in cur:
                    grow(cur | {c})
    for c in block:
        grow(frozenset([c]))
    return sorted(out)


class Lits(Base):
    module, fn = "lits", "solve_lits"

    def instances(self, tier, rng):
        out = []
        for (h, w) in ([(2, 4), (4, 2), (3, 3), (2, 5), (3, 4)] if tier == "quick" else [(2, 4), (4, 2), (3, 3), (2, 5), (3, 4), (4, 3), (2, 6), (4, 4)]):
            for k in range(5 if tier == "quick" else 25):
                rooms = random_rooms(rng, h, w, rng.randint(1, 3))
                out.append({"tag": "%dx%d/r%d" % (h, w, k), "h": h, "w": w, "rooms": rooms})
        # every layout of the small boards whose rooms can all hold a tetromino
        for (h, w) in ([(2, 4), (4, 2), (3, 3)] if tier == "quick" else [(2, 4), (4, 2), (3, 3), (2, 5), (5, 2), (3, 4)]):
            for i, rooms in enumerate(all_room_partitions(h, w)):
                if min(len(r) for r in rooms) >= 4:
                    out.append({"tag": "%dx%d/all%d" % (h, w, i), "h": h, "w": w, "rooms": rooms})

        # regions fat enough to hold a plus-shaped neighbourhood (a T centred on a cell whose four neighbours are in the region),
        # next to other regions, so that T / L / S signatures matter
        fat = [(3, 5, lambda y, x: 0 if x < 3 else 1), (5, 3, lambda y, x: 0 if y < 3 else 1), (4, 4, lambda y, x: 0 if (y < 3 and x < 3) else 1),
               (3, 6, lambda y, x: 0 if x < 3 else 1), (4, 5, lambda y, x: 0 if x < 3 else (1 if y < 2 else 2))]
        for (h, w, f) in fat[: (3 if tier == "quick" else 5)]:
            rooms = {}
            for y in range(h):
                for x in range(w):
                    rooms.setdefault(f(y, x), []).append((y, x))
            out.append({"tag": "%dx%d/fat" % (h, w), "h": h, "w": w, "rooms": [rooms[k] for k in sorted(rooms)]})
        return out

    def call(self, mod, d):
        return mod.solve_lits(d["h"], d["w"], [list(map(tuple, r)) for r in d["rooms"]])

    def rule(self, d, ret, env):
        h, w = d["h"], d["w"]
        b = Grid(ret[1], env, h, w)
        n, es = h * w, grid_edges(h, w)
        cs = [spec.connected(n, es, b.flat())]
        for y in range(h - 1):
            for x in range(w - 1):
                cs.append(z3.Not(And([b(y, x), b(y + 1, x), b(y, x + 1), b(y + 1, x + 1)])))
        rooms = [[tuple(c) for c in r] for r in d["rooms"]]
        sel = []      # per room: list of (type, cells, z3 'this placement is the room's black set')
        for r in rooms:
            opts = []
            for pl in _placements(r):
                ty = _tetromino_type(pl)
                if ty == "O":
                    continue
                s = And([b(*c) if c in pl else z3.Not(b(*c)) for c in r])
                opts.append((ty, set(pl), s))
            cs.append(Or(s for _, _, s in opts))
            sel.append(opts)
        rid = room_ids(h, w, rooms)
        for i in range(len(rooms)):
            for j in range(i + 1, len(rooms)):
                for (t1, c1, s1) in sel[i]:
                    for (t2, c2, s2) in sel[j]:
                        if t1 == t2 and any(abs(y1 - y2) + abs(x1 - x2) == 1 for (y1, x1) in c1 for (y2, x2) in c2):
                            cs.append(z3.Not(z3.And(s1, s2)))
        return And(cs)


class CastleWall(Base):
    module, fn = "castle_wall", "solve_castle_wall"

    def instances(self, tier, rng):
        out = []
        for (h, w) in [(4, 2), (2, 4), (4, 3), (3, 4)]:
            # outward- and inward-pointing clues on every edge of boards with at least four rows / columns
            for (y, x) in ((0, 0), (h - 1, w - 1), (0, w - 1), (h - 1, 0), (0, w // 2), (h // 2, 0)):
                for dch in "^v<>":
                    for n in (0, 1):
                        arrow = [[".."] * w for _ in range(h)]
                        inside = [[None] * w for _ in range(h)]
                        arrow[y][x] = dch + str(n)
                        out.append({"tag": "%dx%d/edge%d,%d%s%d" % (h, w, y, x, dch, n), "h": h, "w": w, "arrow": arrow, "inside": inside})
        # a wall in the interior of the board (a loop can go round it), of every colour: grey (None), white (inside), black (outside)
        for (h, w) in [(3, 3), (3, 4), (4, 3)]:
            for (y, x) in [(1, 1)] + ([(1, 2)] if w == 4 else []) + ([(2, 1)] if h == 4 else []):
                for a in ("??", "^0", ">1"):
                    for ins in (None, True, False):
                        arrow = [[".."] * w for _ in range(h)]
                        inside = [[None] * w for _ in range(h)]
                        arrow[y][x] = a
                        inside[y][x] = ins
                        out.append({"tag": "%dx%d/inner%d,%d%s%s" % (h, w, y, x, a, {None: "g", True: "i", False: "o"}[ins]), "h": h, "w": w,
                                    "arrow": arrow, "inside": inside})
        for (h, w) in shapes(6 if tier == "quick" else 9, min_side=2):
            for k in range(10 if tier == "quick" else 40):
                arrow = [[".."] * w for _ in range(h)]
                inside = [[None] * w for _ in range(h)]
                for _ in range(rng.randint(1, 2)):
                    y, x = rng.randrange(h), rng.randrange(w)
                    arrow[y][x] = rng.choice(["??"] + [dch + str(n) for dch in "^v<>" for n in (0, 1, 2)])
                    inside[y][x] = rng.choice([True, False, None])
                out.append({"tag": "%dx%d/r%d" % (h, w, k), "h": h, "w": w, "arrow": arrow, "inside": inside})
            # systematic: one clue, every corner, every direction
            for (y, x) in ((0, 0), (h - 1, w - 1), (0, w - 1), (h - 1, 0)):
                for dch in "^v<>":
                    for n in (0, 1):
                        for ins in (True, False):
                            arrow = [[".."] * w for _ in range(h)]
                            inside = [[None] * w for _ in range(h)]
                            arrow[y][x] = dch + str(n)
                            inside[y][x] = ins
                            out.append({"tag": "%dx%d/at%d,%d%s%d%s" % (h, w, y, x, dch, n, "i" if ins else "o"), "h": h, "w": w,
                                        "arrow": arrow, "inside": inside})
        return out

    def call(self, mod, d):
        return mod.solve_castle_wall(d["h"], d["w"], d["arrow"], d["inside"])

    def rule(self, d, ret, env):
        h, w = d["h"], d["w"]
        lp = Loop(ret[1], env, h, w)
        cs = [lp.single_loop()]
        for y in range(h):
            for x in range(w):
                a = d["arrow"][y][x]
                if a == "..":
                    continue
                cs.append(z3.Not(lp.visited(y, x)))
                if a[0] in "^v<>":
                    n = int(a[1:])
                    segs = {"^": [lp.V(yy, x) for yy in range(0, y)], "v": [lp.V(yy, x) for yy in range(y, h - 1)],
                            "<": [lp.H(y, xx) for xx in range(0, x)], ">": [lp.H(y, xx) for xx in range(x, w - 1)]}[a[0]]
                    cs.append(count(segs) == n)
                ins = d["inside"][y][x]
                if ins is not None:
                    # the clue cell is off the loop; walk half a cell sideways (no line crossed) and shoot a ray upwards:
                    # it crosses the horizontal segments of that column of segments strictly above
                    xs = x if x < w - 1 else x - 1
                    crossings = count(lp.H(yy, xs) for yy in range(0, y))
                    cs.append((crossings % 2 == 1) if ins else (crossings % 2 == 0))
        return And(cs)


class View(Base):
    module, fn = "view", "solve_view"

    def instances(self, tier, rng):
        out = []
        for (h, w) in shapes(4 if tier == "quick" else 6):
            out.append({"tag": "%dx%d/none" % (h, w), "h": h, "w": w, "problem": [[-1] * w for _ in range(h)]})
            for k in range(8 if tier == "quick" else 30):
                p = rand_layout(rng, h, w, [0, 0, 1, 1, 2, 3], rng.choice([0.2, 0.5]))
                out.append({"tag": "%dx%d/r%d" % (h, w, k), "h": h, "w": w, "problem": [[-1 if v is None else v for v in row] for row in p]})
        for (h, w, tag, p) in single_clue_layouts([(1, 3), (3, 1), (2, 2)] if tier == "quick" else [(1, 3), (3, 1), (2, 2), (2, 3), (3, 2)], [0, 1, 2, 3], -1, 0, 0):
            out.append({"tag": "%dx%d/%s" % (h, w, tag), "h": h, "w": w, "problem": p})
        return out

    def call(self, mod, d):
        return mod.solve_view(d["h"], d["w"], d["problem"])

    def answers(self, ret):
        return arr_vars(ret[1]) + arr_vars(ret[2])

    def rule(self, d, ret, env):
        h, w = d["h"], d["w"]
        num = Grid(ret[1], env, h, w)
        has = Grid(ret[2], env, h, w)
        cs = [spec.connected(h * w, grid_edges(h, w), has.flat())]
        for y in range(h):
            for x in range(w):
                seen = []
                for dy, dx in ((-1, 0), (1, 0), (0, -1), (0, 1)):
                    ray, yy, xx = [], y + dy, x + dx
                    while has.inside(yy, xx):
                        ray.append((yy, xx))
                        # cell k of the ray is visible iff it and all cells before it carry no number
                        seen.append(And(z3.Not(has(*q)) for q in ray))
                        yy, xx = yy + dy, xx + dx
                cs.append(z3.Implies(has(y, x), num(y, x) == count(seen)))
                cs.append(z3.Implies(z3.Not(has(y, x)), num(y, x) == 0))
                for (yy, xx) in ((y + 1, x), (y, x + 1)):
                    if has.inside(yy, xx):
                        cs.append(z3.Implies(z3.And(has(y, x), has(yy, xx)), num(y, x) != num(yy, xx)))
                c = d["problem"][y][x]
                if c >= 0:
                    cs.append(has(y, x))
                    cs.append(num(y, x) == c)
        return And(cs)


class Fivecells(Base):
    module, fn = "fivecells", "solve_fivecells"

    def instances(self, tier, rng):
        out = []
        boards = [(1, 5, []), (5, 1, []), (2, 5, []), (5, 2, []), (2, 3, [(0, 0)]), (2, 3, [(1, 1)]), (3, 2, [(2, 1)]), (3, 4, [(0, 0), (2, 3)]),
                  (3, 3, [(0, 0), (0, 2), (2, 0), (2, 2)]), (2, 3, [])]
        if tier == "thorough":
            boards += [(3, 5, []), (3, 4, [(1, 1), (1, 2)]), (4, 3, [(0, 0), (3, 2)])]
        for (h, w, holes) in boards:
            for k in range(6 if tier == "quick" else 20):
                p = [[-1] * w for _ in range(h)]
                for (y, x) in holes:
                    p[y][x] = -2
                for _ in range(rng.randint(0, 2)):
                    y, x = rng.randrange(h), rng.randrange(w)
                    if p[y][x] == -1:
                        p[y][x] = rng.choice([0, 1, 2, 2, 3, 3, 4])
                out.append({"tag": "%dx%d-%dholes/r%d" % (h, w, len(holes), k), "h": h, "w": w, "problem": p})
        return out

    def call(self, mod, d):
        return mod.solve_fivecells(d["h"], d["w"], d["problem"])

    def rule(self, d, ret, env):
        h, w = d["h"], d["w"]
        p = d["problem"]
        exists = lambda y, x: 0 <= y < h and 0 <= x < w and p[y][x] >= -1   # noqa: E731
        vid, n = {}, 0
        for y in range(h):
            for x in range(w):
                if exists(y, x):
                    vid[(y, x)] = n
                    n += 1
        # the answer lists one flag per pair of existing neighbours, in the order: for each cell (row-major) its lower then its
        # right neighbour (the order in which the module's docstring-less return value is built is part of what is compared:
        # a different order would show as a disagreement)
        edges = []
        for y in range(h):
            for x in range(w):
                if exists(y, x):
                    if exists(y + 1, x):
                        edges.append((vid[(y, x)], vid[(y + 1, x)]))
                    if exists(y, x + 1):
                        edges.append((vid[(y, x)], vid[(y, x + 1)]))
        flags = [env.z(v) for v in arr_vars(ret[1])]
        if len(flags) != len(edges):
            return F
        cs = [spec.borders_spec(n, edges, flags, [z3.IntVal(5)] * n)]
        for y in range(h):
            for x in range(w):
                if exists(y, x) and p[y][x] >= 0:
                    around, fixed = [], 0
                    for (yy, xx) in ((y - 1, x), (y + 1, x), (y, x - 1), (y, x + 1)):
                        if exists(yy, xx):
                            a, b = vid[(y, x)], vid[(yy, xx)]
                            k = edges.index((min(a, b), max(a, b))) if (min(a, b), max(a, b)) in edges else edges.index((max(a, b), min(a, b)))
                            around.append(flags[k])
                        else:
                            fixed += 1
                    cs.append(count(around) + fixed == p[y][x])
        return And(cs)


class Shakashaka(Base):
    """white cells hold a black right triangle (1-4: right angle at the top-left, bottom-left, bottom-right, top-right corner) or
    stay empty (0); clue cells are black, a number counts the triangles among the four neighbours; every white area is a
    rectangle (upright or at 45 degrees).  The last rule is written locally and without auxiliaries: cut every cell into its
    four quarter triangles (N, E, S, W); around each lattice point eight 45-degree sectors meet; every maximal cyclic run of
    white sectors must span 90 or 180 degrees or the full turn.  (A region all of whose boundary corners are convex right angles
    has total turning 360 degrees with exactly four corners - a rectangle; a hole or a notch needs a reflex corner, a slanted
    edge ending on a wall a 45 or 135 degree one.)"""
    module, fn = "shakashaka", "solve_shakashaka"

    def instances(self, tier, rng):
        out = []
        for (h, w) in shapes(6 if tier == "quick" else 9):
            out.append({"tag": "%dx%d/open" % (h, w), "h": h, "w": w, "problem": [[None] * w for _ in range(h)]})
            for k in range(8 if tier == "quick" else 40):
                out.append({"tag": "%dx%d/r%d" % (h, w, k), "h": h, "w": w,
                            "problem": rand_layout(rng, h, w, [-1, -1, -1, 0, 1, 2, 3, 4], rng.choice([0.15, 0.3, 0.5]))})
        for (h, w, tag, p) in single_clue_layouts([(1, 3), (3, 1), (2, 3), (3, 2)] if tier == "quick" else [(1, 3), (3, 1), (2, 3), (3, 2), (2, 4), (4, 2), (3, 3)],
                                                  [-1, 0, 1, 2, 3, 4], None, 0, 0):
            out.append({"tag": "%dx%d/%s" % (h, w, tag), "h": h, "w": w, "problem": p})
        # black blocks wrapped by white cells on 4x4 (and 4x5 / 5x5 in the thorough tier): a chain of slanted edges can close
        # around a block only from these sizes on
        big = [(4, 4)] if tier == "quick" else [(4, 4), (4, 5), (5, 4), (5, 5)]
        for (h, w) in big:
            out.append({"tag": "%dx%d/open" % (h, w), "h": h, "w": w, "problem": [[None] * w for _ in range(h)]})
            for (bh, bw) in ((1, 1), (1, 2), (2, 1), (2, 2)):
                for y0 in range(1, h - bh):
                    for x0 in range(1, w - bw):
                        for corners in (False, True):
                            p = [[None] * w for _ in range(h)]
                            for y in range(y0, y0 + bh):
                                for x in range(x0, x0 + bw):
                                    p[y][x] = -1
                            if corners:
                                for (y, x) in ((0, 0), (0, w - 1), (h - 1, 0), (h - 1, w - 1)):
                                    p[y][x] = -1
                            out.append({"tag": "%dx%d/block%dx%d@%d,%d%s" % (h, w, bh, bw, y0, x0, "+corners" if corners else ""), "h": h, "w": w, "problem": p})
            for k in range(6 if tier == "quick" else 30):
                out.append({"tag": "%dx%d/r%d" % (h, w, k), "h": h, "w": w,
                            "problem": rand_layout(rng, h, w, [-1, -1, -1, 0, 1, 2, 3, 4], rng.choice([0.15, 0.3]))})
        return out

    def call(self, mod, d):
        return mod.solve_shakashaka(d["h"], d["w"], d["problem"])

    WHITE_QUARTER = {"N": (0, 2, 3), "E": (0, 1, 2), "S": (0, 1, 4), "W": (0, 3, 4)}

    def rule(self, d, ret, env):
        h, w = d["h"], d["w"]
        a = Grid(ret[1], env, h, w)
        p = d["problem"]
        cs = []
        for y in range(h):
            for x in range(w):
                cs.append(z3.And(a(y, x) >= 0, a(y, x) <= 4))
                if p[y][x] is not None:
                    cs.append(a(y, x) == 0)
                    if p[y][x] >= 0:
                        cs.append(count(a(*q) != 0 for q in a.nb4(y, x)) == p[y][x])

        def white(y, x, quarter):
            if not a.inside(y, x) or p[y][x] is not None:
                return F
            return Or([a(y, x) == t for t in self.WHITE_QUARTER[quarter]])
        for y in range(h + 1):
            for x in range(w + 1):
                # clockwise from north: upper-right cell (its W, S quarters), lower-right (N, W), lower-left (E, N), upper-left (S, E)
                o = [white(y - 1, x, "W"), white(y - 1, x, "S"), white(y, x, "N"), white(y, x, "W"),
                     white(y, x - 1, "E"), white(y, x - 1, "N"), white(y - 1, x - 1, "S"), white(y - 1, x - 1, "E")]
                for i in range(8):
                    g = lambda k: o[(i + k) % 8]     # noqa: E731
                    start = z3.And(g(0), z3.Not(g(-1)))
                    ok = Or([z3.And(g(1), z3.Not(g(2))), z3.And(g(1), g(2), g(3), z3.Not(g(4)))])
                    cs.append(z3.Implies(start, ok))
        return And(cs)


ALL = [Sudoku(), Slitherlink(), Masyu(), Yajilin(), Nurikabe(), Heyawake(), Akari(), Norinori(), StarBattle(), Fillomino(), Nurimisaki(),
       Yinyang(), Creek(), Gokigen(), Aquarium(), Building(), Doppelblock(), Putteria(), Geradeweg(), Compass(), Lits(), CastleWall(), View(), Fivecells(), Shakashaka()]
BY_NAME = {s.module: s for s in ALL}
NOT_COVERED = {
    "simpleloop": "its `pivot` parameter is a generator device with no published rule",
}


# ---------------------------------------------------------------------------------------------------------------------------
# solution-derived instances: sample a rule-obeying grid of the clue-free board with z3, then read the clues off it
# (so that a good share of the instances is satisfiable, with clues consistent with at least one grid)
# ---------------------------------------------------------------------------------------------------------------------------
def _blank_ret(sp, d, s):
    """a stand-in for the value returned by solve_<puzzle>: fresh arrays of the right shapes on a scratch Solver"""
    from cspuz import BoolGridFrame as BGF
    m = sp.module
    if m == "sudoku":
        N = d.get("n", 2) ** 2
        return (None, s.int_array((N, N), 1, N))
    if m == "slitherlink":
        return (None, BGF(s, d["h"], d["w"]))
    if m in ("masyu", "geradeweg"):
        return (None, BGF(s, d["h"] - 1, d["w"] - 1))
    if m == "yajilin":
        return (None, BGF(s, d["h"] - 1, d["w"] - 1), s.bool_array((d["h"], d["w"])))
    if m in ("building",):
        return (None, s.int_array((d["n"], d["n"]), 1, d["n"]))
    if m == "doppelblock":
        return (None, s.int_array((d["n"], d["n"]), 0, d["n"] - 2))
    if m == "fillomino":
        return (None, s.int_array((d["h"], d["w"]), 1, d["h"] * d["w"]))
    if m == "compass":
        return (None, s.int_array((d["h"], d["w"]), 0, len(d["problem"]) - 1))
    if m == "star_battle":
        return (None, s.bool_array((d["n"], d["n"])))
    if m == "shakashaka":
        return (None, s.int_array((d["h"], d["w"]), 0, 4))
    return (None, s.bool_array((d["h"], d["w"])))


def sample_solution(sp, d, rng, tries=6):
    """returns the values of sp.answers(blank) for one grid obeying rule(d) or None"""
    from cspuz import Solver as _S
    from cspuz.expr import BoolVar as _BV
    from ..ea import ref as _ref
    s = _S()
    ret = _blank_ret(sp, d, s)
    env = _ref.Env()
    xv = sp.answers(ret)
    R = z3.And(env.domain(xv), sp.rule(d, ret, env))
    for _ in range(tries):
        q = z3.Solver()
        q.set("timeout", 20000)
        q.set("random_seed", rng.randrange(1 << 30))
        q.add(R)
        for v in rng.sample(xv, min(len(xv), rng.randint(1, 3))):      # random nudges
            zv = env.z(v)
            q.add(zv == (z3.BoolVal(rng.random() < 0.5) if isinstance(v, _BV) else z3.IntVal(rng.randint(v.lo, v.hi))))
        if q.check() == z3.sat:
            m = q.model()
            vals = []
            for v in xv:
                mv = m.eval(env.z(v), model_completion=True)
                vals.append(bool(z3.is_true(mv)) if isinstance(v, _BV) else mv.as_long())
            return ret, xv, vals
    return None


def shape_key(d):
    """board size of an instance description (instances of equal shape can serve as each other's history)"""
    return (d.get("h"), d.get("w"), d.get("n"))


def content_key(d):
    import json as _json
    return _json.dumps({k: v for k, v in d.items() if k not in ("tag", "name", "puzzle", "prior")}, sort_keys=True, default=str)


def derive_instances(sp, rng, tier):
    """clue layouts read off sampled solutions, with a random subset of the clues kept"""
    out = []
    m = sp.module
    n_per = 4 if tier == "quick" else 16
    keep = lambda: rng.random() < rng.choice([0.3, 0.6, 1.0])   # noqa: E731

    def grid_of(vals, h, w, off=0):
        return [[vals[off + y * w + x] for x in range(w)] for y in range(h)]
    if m in ("slitherlink", "akari", "creek", "gokigen", "nurikabe", "fillomino", "yinyang", "heyawake", "aquarium"):
        for (h, w) in shapes(4 if m in ("slitherlink", "gokigen", "fillomino") else 6):
            if m == "yinyang" and min(h, w) < 2:
                continue
            for k in range(n_per):
                if m == "slitherlink":
                    d0 = {"h": h, "w": w, "problem": [[-1] * w for _ in range(h)]}
                elif m == "akari":
                    lay = rand_layout(rng, h, w, [-1], rng.choice([0.0, 0.2, 0.4]))
                    d0 = {"h": h, "w": w, "problem": [[-2 if v is None else -1 for v in row] for row in lay]}
                elif m in ("creek", "gokigen"):
                    d0 = {"h": h, "w": w, "problem": [[-1] * (w + 1) for _ in range(h + 1)]}
                elif m == "nurikabe":
                    d0 = None
                elif m == "fillomino":
                    d0 = {"h": h, "w": w, "problem": [[0] * w for _ in range(h)]}
                elif m == "yinyang":
                    d0 = {"h": h, "w": w, "problem": [[0] * w for _ in range(h)]}
                elif m == "heyawake":
                    rooms = random_rooms(rng, h, w, rng.randint(1, 4))
                    d0 = {"h": h, "w": w, "rooms": rooms, "clues": [-1] * len(rooms)}
                elif m == "aquarium":
                    base = [d for d in Aquarium().instances("quick", rng) if (d["h"], d["w"]) == (h, w)]
                    if not base:
                        continue
                    d0 = dict(rng.choice(base))
                    d0["row"], d0["col"] = [-1] * h, [-1] * w
                if m == "nurikabe":
                    # any colouring with a connected non-empty wall, no 2x2 wall: islands get their size as clue
                    d0 = {"h": h, "w": w, "problem": [[0] * w for _ in range(h)]}
                    from cspuz import Solver as _S
                    from ..ea import ref as _ref
                    s = _S()
                    arr = s.bool_array((h, w))
                    env = _ref.Env()
                    g = Grid(arr, env, h, w)
                    black = [z3.Not(t) for t in g.flat()]
                    R = z3.And(spec.connected(h * w, grid_edges(h, w), black), Or(black),
                               And(Or([g(y, x), g(y + 1, x), g(y, x + 1), g(y + 1, x + 1)]) for y in range(h - 1) for x in range(w - 1)))
                    q = z3.Solver()
                    q.set("random_seed", rng.randrange(1 << 30))
                    q.add(R)
                    for t in rng.sample(g.flat(), min(h * w, 2)):
                        q.add(t == z3.BoolVal(rng.random() < 0.6))
                    if q.check() != z3.sat:
                        continue
                    mdl = q.model()
                    white = [[bool(z3.is_true(mdl.eval(g(y, x), model_completion=True))) for x in range(w)] for y in range(h)]
                    comp = spec.closure_py(h * w, grid_edges(h, w), [white[y][x] for y in range(h) for x in range(w)], [True] * len(grid_edges(h, w)))
                    p = [[0] * w for _ in range(h)]
                    seen = set()
                    for u in range(h * w):
                        if white[u // w][u % w] and u not in seen:
                            members = [v for v in range(h * w) if comp[u][v]]
                            seen |= set(members)
                            c = rng.choice(members)
                            p[c // w][c % w] = len(members) if rng.random() < 0.8 else -1
                    out.append({"tag": "%dx%d/sol%d" % (h, w, k), "h": h, "w": w, "problem": p})
                    continue
                smp = sample_solution(sp, d0, rng)
                if smp is None:
                    continue
                ret, xv, vals = smp
                d = dict(d0)
                d["tag"] = "%dx%d/sol%d" % (h, w, k)
                if m == "slitherlink":
                    f = ret[1]
                    val = {id(v): b for v, b in zip(xv, vals)}
                    d["problem"] = [[(sum(val[id(e)] for e in (f.horizontal[y, x], f.horizontal[y + 1, x], f.vertical[y, x], f.vertical[y, x + 1]))
                                      if keep() else -1) for x in range(w)] for y in range(h)]
                elif m == "akari":
                    lt = grid_of(vals, h, w)
                    p = [row[:] for row in d0["problem"]]
                    for y in range(h):
                        for x in range(w):
                            if p[y][x] == -1 and keep():
                                p[y][x] = sum(1 for (yy, xx) in ((y - 1, x), (y + 1, x), (y, x - 1), (y, x + 1))
                                              if 0 <= yy < h and 0 <= xx < w and lt[yy][xx])
                    d["problem"] = p
                elif m == "creek":
                    wh = grid_of(vals, h, w)
                    d["problem"] = [[(sum(1 for yy in (y - 1, y) for xx in (x - 1, x) if 0 <= yy < h and 0 <= xx < w and not wh[yy][xx])
                                      if keep() else -1) for x in range(w + 1)] for y in range(h + 1)]
                elif m == "gokigen":
                    t = grid_of(vals, h, w)

                    def touch(y, x):
                        c = 0
                        if y > 0 and x > 0 and t[y - 1][x - 1]:
                            c += 1
                        if y > 0 and x < w and not t[y - 1][x]:
                            c += 1
                        if y < h and x > 0 and not t[y][x - 1]:
                            c += 1
                        if y < h and x < w and t[y][x]:
                            c += 1
                        return c
                    d["problem"] = [[touch(y, x) if keep() else -1 for x in range(w + 1)] for y in range(h + 1)]
                elif m == "fillomino":
                    g = grid_of(vals, h, w)
                    d["problem"] = [[g[y][x] if keep() else 0 for x in range(w)] for y in range(h)]
                elif m == "yinyang":
                    g = grid_of(vals, h, w)
                    d["problem"] = [[(2 if g[y][x] else 1) if rng.random() < 0.3 else 0 for x in range(w)] for y in range(h)]
                elif m == "heyawake":
                    g = grid_of(vals, h, w)
                    d["clues"] = [sum(1 for (y, x) in r if g[y][x]) if keep() else -1 for r in d0["rooms"]]
                elif m == "aquarium":
                    g = grid_of(vals, h, w)
                    d["row"] = [sum(g[y]) if keep() else -1 for y in range(h)]
                    d["col"] = [sum(g[y][x] for y in range(h)) if keep() else -1 for x in range(w)]
                out.append(d)
    elif m in ("building", "doppelblock"):
        for n in ((3,) if tier == "quick" else (3, 4)):
            for k in range(n_per * 2):
                if m == "building":
                    d0 = {"n": n, "up": [0] * n, "dw": [0] * n, "lf": [0] * n, "rg": [0] * n}
                else:
                    d0 = {"n": n, "row": [-1] * n, "col": [-1] * n}
                smp = sample_solution(sp, d0, rng)
                if smp is None:
                    continue
                g = grid_of(smp[2], n, n)
                d = dict(d0)
                d["tag"] = "n%d/sol%d" % (n, k)
                if m == "building":
                    def vis(line):
                        c, mx = 0, 0
                        for v in line:
                            if v > mx:
                                c, mx = c + 1, v
                        return c
                    d["up"] = [vis([g[y][i] for y in range(n)]) if keep() else 0 for i in range(n)]
                    d["dw"] = [vis([g[y][i] for y in range(n)][::-1]) if keep() else 0 for i in range(n)]
                    d["lf"] = [vis(g[i]) if keep() else 0 for i in range(n)]
                    d["rg"] = [vis(g[i][::-1]) if keep() else 0 for i in range(n)]
                else:
                    def between(line):
                        idx = [i for i, v in enumerate(line) if v == 0]
                        return sum(line[idx[0] + 1:idx[1]])
                    d["row"] = [between(g[i]) if keep() else -1 for i in range(n)]
                    d["col"] = [between([g[y][i] for y in range(n)]) if keep() else -1 for i in range(n)]
                out.append(d)
    elif m == "sudoku":
        d0 = {"problem": [[0] * 4 for _ in range(4)]}
        for k in range(n_per * 2):
            smp = sample_solution(sp, d0, rng)
            if smp is None:
                continue
            g = grid_of(smp[2], 4, 4)
            out.append({"tag": "n2/sol%d" % k, "problem": [[g[y][x] if rng.random() < 0.4 else 0 for x in range(4)] for y in range(4)]})
    return out
