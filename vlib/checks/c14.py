"""C14 - BoolGridFrame accessors are consistent with the lattice geometry (Engine B + finite structural tables)."""
import os

from cspuz import Solver, BoolGridFrame
from cspuz import graph as G

from .. import common
from ..eb import runner

FILES = ["cspuz/grid_frame.py", "cspuz/graph.py"]
HF = os.path.join(common.VERIF, "vlib", "eb", "harness", "h_c14.py")


def finite_tables(rep, maxn):
    for h in range(0, maxn + 1):
        for w in range(0, maxn + 1):
            rep.finite_tables += 1
            try:
                ok = _structure_ok(h, w)
            except Exception as e:
                ok = False
            if not ok:
                rep.counterexample("structure", "frame %dx%d: all_edges/iteration/_from_grid_frame disagree with the geometry" % (h, w),
                                   {"engine": "table", "h": h, "w": w}, True)


def _structure_ok(h, w):
    return all(_structure_ok_mode(h, w, mode) for mode in range(4))


def _structure_ok_mode(h, w, mode):
    """mode: which of the optional edge arrays the caller supplies (0 none, 1 horizontal, 2 vertical, 3 both)"""
    if True:
        if True:
            s = Solver()
            hz = s.bool_array((h + 1, w)) if mode & 1 else None
            vt = s.bool_array((h, w + 1)) if mode & 2 else None
            f = BoolGridFrame(s, h, w, horizontal=hz, vertical=vt) if mode else BoolGridFrame(s, h, w)
            if (hz is not None and f.horizontal is not hz) or (vt is not None and f.vertical is not vt):
                return False
            if f.horizontal is None or f.vertical is None:
                return False
            ok = tuple(f.horizontal.shape) == (h + 1, w) and tuple(f.vertical.shape) == (h, w + 1)
            order = [id(x) for x in f.horizontal.data] + [id(x) for x in f.vertical.data]
            ok = ok and [id(x) for x in f.all_edges().data] == order and [id(x) for x in f] == order
            # history: all_edges / iteration / dual used repeatedly must leave the arrays as they were
            ok = ok and [id(x) for x in f.all_edges().data] == order and [id(x) for x in f] == order
            ok = ok and [id(x) for x in f.horizontal.data] + [id(x) for x in f.vertical.data] == order
            ok = ok and tuple(f.horizontal.shape) == (h + 1, w) and len(f.horizontal.data) == (h + 1) * w and len(f.vertical.data) == h * (w + 1)
            d = f.dual()
            ok = ok and [id(x) for x in d] == [id(x) for x in d.dual()]
            # graph inferred by the loop constraints: edge k must be the segment that geometrically joins its end points
            edges, g = G._from_grid_frame(f)
            ok = ok and g.num_vertices == (h + 1) * (w + 1) and len(edges) == len(g.edges) == len(order)
            seen = set()
            for e, (p, q) in zip(edges, g.edges):
                p, q = min(p, q), max(p, q)
                y, x = divmod(p, w + 1)
                if q == p + 1 and x < w:
                    want = f.horizontal[y, x]
                elif q == p + (w + 1):
                    want = f.vertical[y, x]
                else:
                    ok = False
                    break
                ok = ok and e is want
                seen.add(id(e))
            ok = ok and seen == set(order)
            return ok


def run(tier, only=None):
    rep = common.Report("C14", tier, "other", FILES)
    T = 40 if tier == "quick" else 200
    conds = [runner.Cond(HF, f, T, key=f[2:]) for f in
             ["h_getitem", "h_cell_neighbors", "h_vertex_neighbors", "h_dual", "h_edge_joins_points", "h_vedge_joins_points", "h_accessor_history"]]
    if only:
        conds = [c for c in conds if only in c.name]
    runner.run_conditions(rep, conds)
    finite_tables(rep, 4 if tier == "quick" else 7)
    rep.functions = ["BoolGridFrame.__getitem__", "BoolGridFrame.cell_neighbors", "BoolGridFrame.vertex_neighbors", "BoolGridFrame.dual",
                     "BoolInnerGridFrame.dual/__iter__", "BoolGridFrame.all_edges/__iter__", "cspuz.graph._from_grid_frame (finite table)"]
    rep.bounds = {"CrossHair": "frame height, width >= 0 and all coordinates UNBOUNDED symbolic ints",
                  "finite table": "all_edges / iteration order / _from_grid_frame for all h, w <= %d" % (4 if tier == "quick" else 7),
                  "per-condition CPU budget s": T}
    rep.outside = ["semantic use of the inferred graph by the loop constraints is decided by C06/C10 (geometric specifications)"]
    rep.assumptions = ["stub 2-D arrays returning (tag,i,j) and failing outside their bounds stand for BoolArray2D inside the frame",
                       "CrossHair 'Confirmed over all paths' is sound"]
    return rep.finish("CrossHair executes the real BoolGridFrame accessors with symbolic unbounded height, width and coordinates over stub "
                      "arrays; the postconditions state the lattice geometry (which segment joins which points / bounds which cells, "
                      "IndexError exactly outside). Size-specific orderings are a finite table.")


replay = runner.generic_replay
