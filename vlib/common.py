"""Shared plumbing: evidence files, known findings, replay files, verdict/exit discipline."""
import hashlib
import json
import os
import sys
import time

VERIF = os.path.dirname(os.path.dirname(os.path.abspath(__file__)))
REPO = os.environ.get("VERIF_REPO", "/repo")
EXIT_OK, EXIT_VIOLATION, EXIT_HARNESS = 0, 1, 3


def seed():
    try:
        return int(os.environ.get("VERIF_SEED", "0"))
    except ValueError:
        return 0


def ncores():
    try:
        return max(1, int(os.environ.get("VERIF_JOBS", os.cpu_count() or 4)))
    except ValueError:
        return 4


def sha256_file(path):
    h = hashlib.sha256()
    with open(path, "rb") as f:
        h.update(f.read())
    return h.hexdigest()[:16]


def source_hashes(relpaths):
    out = {}
    for r in relpaths:
        p = os.path.join(REPO, r)
        out[r] = sha256_file(p) if os.path.exists(p) else "missing"
    return out


class Findings:
    """known_findings.txt: 'finding: property=<id> key=<key> <text>' / 'fixed: property=<id> <commit> <text>'."""

    def __init__(self, path=None):
        self.path = path or os.path.join(VERIF, "known_findings.txt")
        self.known = {}  # (prop, key) -> text
        if os.path.exists(self.path):
            for line in open(self.path):
                line = line.strip()
                if not line.startswith("finding:"):
                    continue
                parts = line[len("finding:"):].split()
                prop = key = None
                rest = []
                for p in parts:
                    if p.startswith("property=") and prop is None:
                        prop = p[9:]
                    elif p.startswith("key=") and key is None:
                        key = p[4:]
                    else:
                        rest.append(p)
                if prop and key:
                    self.known[(prop, key)] = " ".join(rest)

    def lookup(self, prop, key):
        return self.known.get((prop, key))


class Report:
    """Collects obligations of one check run and turns them into exit code + evidence."""

    def __init__(self, prop, tier, level, files):
        self.prop = prop
        self.tier = tier
        self.level = level
        self.files = files
        self.t0 = time.time()
        self.findings = Findings()
        self.obligations = 0
        self.discharged = 0
        self.inconclusive = []
        self.violations = []     # (key, text, replay_path)
        self.known_hits = {}     # key -> text
        self.harness_errors = []
        self.samples = []
        self.extra = {}
        self.assumptions = []
        self.bounds = {}
        self.outside = []
        self.functions = []
        self.solver_time = 0.0
        self.queries = {}        # verdict -> count
        self.programs = 0
        self.disagreements_checked = 0
        self.distinct = set()
        self.evaluations = 0
        self.finite_tables = 0

    # -- bookkeeping -------------------------------------------------------
    def count_query(self, verdict, dt=0.0, n=1):
        self.queries[verdict] = self.queries.get(verdict, 0) + n
        self.solver_time += dt

    def ok(self, n=1):
        self.obligations += n
        self.discharged += n

    def inconc(self, what):
        self.obligations += 1
        self.inconclusive.append(what)

    def sample(self, s, cap=12):
        if len(self.samples) < cap:
            self.samples.append(s)

    def harness_error(self, what):
        self.harness_errors.append(what)
        print("HARNESS-ERROR: property=%s %s" % (self.prop, what), flush=True)

    def counterexample(self, key, text, payload, reproduced):
        """A solver counterexample that was replayed against the real code.
        reproduced=False -> harness error, not a violation."""
        self.obligations += 1
        self.disagreements_checked += 1
        if not reproduced:
            self.harness_error("counterexample does not reproduce on the real code: %s %s" % (key, text))
            return
        known = self.findings.lookup(self.prop, key)
        if known is not None:
            if key not in self.known_hits:
                self.known_hits[key] = text
                print("KNOWN-FINDING: property=%s key=%s %s" % (self.prop, key, known or text), flush=True)
            return
        os.makedirs(os.path.join(VERIF, "replays"), exist_ok=True)
        name = "%s_%s.json" % (self.prop, hashlib.sha1((key + json.dumps(payload, sort_keys=True, default=str)).encode()).hexdigest()[:10])
        path = os.path.join(VERIF, "replays", name)
        with open(path, "w") as f:
            json.dump({"property": self.prop, "key": key, "text": text, "payload": payload}, f, indent=1, default=str)
        if len(self.violations) < 50:
            print("VIOLATION property=%s replay=%s" % (self.prop, path), flush=True)
            print("  key=%s %s" % (key, text), flush=True)
        self.violations.append((key, text, path))

    # -- finish --------------------------------------------------------------
    def finish(self, explanation):
        wall = time.time() - self.t0
        cov = {
            "explanation": explanation,
            "obligations": self.obligations,
            "discharged": self.discharged,
            "inconclusive": len(self.inconclusive),
            "inconclusive_list": self.inconclusive[:40],
            "solver_queries_by_verdict": self.queries,
            "solver_time_s": round(self.solver_time, 2),
            "functions_encoded": self.functions,
            "source_sha256": source_hashes(self.files),
            "bounds": self.bounds,
            "outside_the_bound": self.outside,
            "samples": self.samples or ["(no sample recorded)"],
            "programs": max(self.programs, 0),
            "disagreements_checked": self.disagreements_checked,
            "known_findings_hit": self.known_hits,
            "violations_list": [(k, t) for k, t, _ in self.violations[:20]],
            "harness_errors": self.harness_errors[:20],
            "evaluations": max(self.evaluations, self.obligations),
            "distinct_nontrivial": len(self.distinct) if self.distinct else self.discharged,
            "rule": "one obligation = one solver query / CrossHair condition over symbolic values; distinct = distinct (instance, query-kind) pairs decided",
            "finite_table_rows": self.finite_tables,
        }
        cov.update(self.extra)
        ev = {
            "property_id": self.prop,
            "tier": self.tier,
            "seed": seed(),
            "level": self.level,
            "coverage": cov,
            "assumptions": self.assumptions,
            "wall_s": round(wall, 2),
            "violations": len(self.violations),
        }
        # runs against another checkout (seeded-change trials) must not overwrite the evidence of /repo
        evdir = os.path.join(VERIF, "evidence") if os.path.abspath(REPO) == "/repo" else os.path.join(VERIF, "scratch", "evidence")
        if os.environ.get("VERIF_EVIDENCE_DIR"):       # (trial runs that must not replace the committed evidence)
            evdir = os.environ["VERIF_EVIDENCE_DIR"]
        os.makedirs(evdir, exist_ok=True)
        with open(os.path.join(evdir, self.prop + ".json"), "w") as f:
            json.dump(ev, f, indent=1, default=str)
        print("%s %s: obligations=%d discharged=%d inconclusive=%d violations=%d known=%d harness_errors=%d wall=%.1fs" % (
            self.prop, self.tier, self.obligations, self.discharged, len(self.inconclusive),
            len(self.violations), len(self.known_hits), len(self.harness_errors), wall), flush=True)
        if self.violations:
            return EXIT_VIOLATION
        if self.harness_errors:
            return EXIT_HARNESS
        if self.discharged == 0:
            print("HARNESS-ERROR: nothing discharged (all inconclusive)")
            return EXIT_HARNESS
        return EXIT_OK
