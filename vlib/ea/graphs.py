"""Instance families: small graphs up to isomorphism, multigraphs, grids."""
import itertools


def _canon(n, es):
    best = None
    for p in itertools.permutations(range(n)):
        t = tuple(sorted(tuple(sorted((p[u], p[v]))) for u, v in es))
        if best is None or t < best:
            best = t
    return best


def all_graphs(n):
    """all simple graphs on n labelled-then-canonised vertices, one per isomorphism class"""
    pairs = list(itertools.combinations(range(n), 2))
    seen, out = set(), []
    for mask in range(1 << len(pairs)):
        es = [pairs[i] for i in range(len(pairs)) if mask >> i & 1]
        c = _canon(n, es)
        if c not in seen:
            seen.add(c)
            out.append(list(c))
    return out


def named_graphs(n):
    out = {}
    out["path%d" % n] = [(i, i + 1) for i in range(n - 1)]
    if n >= 3:
        out["cycle%d" % n] = [(i, (i + 1) % n) for i in range(n)]
        out["star%d" % n] = [(0, i) for i in range(1, n)]
    out["complete%d" % n] = list(itertools.combinations(range(n), 2))
    out["empty%d" % n] = []
    if n >= 4:
        out["two_comp%d" % n] = [(i, i + 1) for i in range(n // 2 - 1)] + [(i, i + 1) for i in range(n // 2, n - 1)]
        # path whose ends are numbered in the middle (rank range stress)
        order = list(range(0, n, 2)) + list(range(n - 1 - (n % 2 == 0) * 0, 0, -2))
        order = sorted(set(order), key=order.index)
        if len(order) == n:
            out["zigzag%d" % n] = [(order[i], order[i + 1]) for i in range(n - 1)]
    if n == 6:
        # dense 6-vertex graphs (triangles, every vertex with several neighbours at every distance) and graphs whose
        # components each contain a cycle
        out["prism6"] = [(0, 1), (1, 2), (2, 0), (3, 4), (4, 5), (5, 3), (0, 3), (1, 4), (2, 5)]
        out["octahedron6"] = [(u, v) for u, v in itertools.combinations(range(6), 2) if v - u != 3]
        out["wheel6"] = [(0, i) for i in range(1, 6)] + [(i, i % 5 + 1) for i in range(1, 6)]
        out["k33_6"] = [(u, v) for u in range(3) for v in range(3, 6)]
        out["two_triangles6"] = [(0, 1), (1, 2), (2, 0), (3, 4), (4, 5), (5, 3)]
        out["tri_handle6"] = [(0, 1), (1, 2), (2, 0), (0, 3), (3, 4), (4, 5), (5, 3), (1, 4)]
    return out


def random_multigraph(rng, n, m, simple=False):
    es = []
    tries = 0
    while len(es) < m and tries < 200:
        tries += 1
        u, v = rng.randrange(n), rng.randrange(n)
        if u == v:
            continue
        if simple and ((u, v) in es or (v, u) in es):
            continue
        es.append((u, v))
    return es


def multigraphs_small():
    """hand-picked multigraphs with parallel edges"""
    return {
        "par2": (2, [(0, 1), (0, 1)]),
        "par3": (2, [(0, 1), (1, 0), (0, 1)]),
        "tri_par": (3, [(0, 1), (1, 2), (2, 0), (0, 1)]),
        "k4": (4, list(itertools.combinations(range(4), 2))),
        "two_tri": (5, [(0, 1), (1, 2), (2, 0), (2, 3), (3, 4), (4, 2)]),
        "tri_iso": (4, [(0, 1), (1, 2), (2, 0)]),
        "square_diag": (4, [(0, 1), (1, 2), (2, 3), (3, 0), (0, 2)]),
        "theta": (4, [(0, 1), (1, 3), (0, 2), (2, 3), (0, 3)]),
        "single_edge": (2, [(0, 1)]),
        "k1": (1, []),
        "path3_par": (3, [(0, 1), (0, 1), (1, 2)]),
        # disconnected, a cycle available in more than one component
        "two_par": (4, [(0, 1), (1, 0), (2, 3), (2, 3)]),
        "tri_and_par": (5, [(0, 1), (1, 2), (2, 0), (3, 4), (4, 3)]),
        "two_tri_disjoint": (6, [(0, 1), (1, 2), (2, 0), (3, 4), (4, 5), (5, 3)]),
        "isolated3": (3, []),
        "edge_and_isolated": (3, [(0, 1)]),
    }


def grid_shapes(max_cells, min_side=1):
    out = []
    for h in range(min_side, max_cells + 1):
        for w in range(min_side, max_cells + 1):
            if h * w <= max_cells:
                out.append((h, w))
    return out
