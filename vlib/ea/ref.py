"""Independent reference translation of cspuz Expr trees into z3 terms.

This is the "ordinary arithmetic/logical meaning" the properties refer to.  It does not use
cspuz.backend.* in any way.  Typed: a Python bool where an int is required (or vice versa)
raises RefTypeError (the DSL calls such a tree ill-typed).
"""
import z3

from cspuz.expr import BoolExpr, BoolVar, Expr, IntExpr, IntVar, Op

from . import spec


class RefTypeError(Exception):
    pass


class Env:
    """Maps cspuz variables (by object identity) to z3 constants."""

    def __init__(self, prefix="v"):
        self.prefix = prefix
        self.vars = {}     # id(var) -> z3 const
        self.objs = {}     # id(var) -> var object

    def z(self, v):
        k = id(v)
        if k not in self.vars:
            if isinstance(v, BoolVar):
                self.vars[k] = z3.Bool("%sb%d" % (self.prefix, v.id))
            elif isinstance(v, IntVar):
                self.vars[k] = z3.Int("%si%d" % (self.prefix, v.id))
            else:
                raise RefTypeError("not a variable: %r" % (v,))
            self.objs[k] = v
        return self.vars[k]

    def domain(self, vs):
        out = []
        for v in vs:
            if isinstance(v, IntVar):
                zv = self.z(v)
                out.append(z3.And(zv >= v.lo, zv <= v.hi))
            else:
                self.z(v)
        return z3.And(out) if out else z3.BoolVal(True)


def rb(e, env):
    """Boolean-typed reference term."""
    if isinstance(e, bool):
        return z3.BoolVal(e)
    if isinstance(e, BoolVar):
        return env.z(e)
    if not isinstance(e, Expr) or isinstance(e, (IntVar,)):
        raise RefTypeError("boolean expected, got %r" % (e,))
    op, xs = e.op, e.operands
    if op == Op.BOOL_CONSTANT:
        if len(xs) != 1 or not isinstance(xs[0], bool):
            raise RefTypeError("BOOL_CONSTANT operand")
        return z3.BoolVal(xs[0])
    if op in (Op.EQ, Op.NE, Op.LE, Op.LT, Op.GE, Op.GT):
        if len(xs) != 2:
            raise RefTypeError("comparison arity")
        a, b = ri(xs[0], env), ri(xs[1], env)
        return {Op.EQ: a == b, Op.NE: a != b, Op.LE: a <= b, Op.LT: a < b, Op.GE: a >= b, Op.GT: a > b}[op]
    if op == Op.NOT:
        if len(xs) != 1:
            raise RefTypeError("NOT arity")
        return z3.Not(rb(xs[0], env))
    if op == Op.AND:
        ts = [rb(x, env) for x in xs]
        return z3.And(ts) if ts else z3.BoolVal(True)
    if op == Op.OR:
        ts = [rb(x, env) for x in xs]
        return z3.Or(ts) if ts else z3.BoolVal(False)
    if op in (Op.IFF, Op.XOR, Op.IMP):
        if len(xs) != 2:
            raise RefTypeError("binary boolean arity")
        a, b = rb(xs[0], env), rb(xs[1], env)
        if op == Op.IFF:
            return a == b
        if op == Op.XOR:
            return z3.Xor(a, b)
        return z3.Implies(a, b)
    if op == Op.ALLDIFF:
        ts = [ri(x, env) for x in xs]
        out = []
        for i in range(len(ts)):
            for j in range(i):
                out.append(ts[i] != ts[j])
        return z3.And(out) if out else z3.BoolVal(True)
    if op == Op.GRAPH_ACTIVE_VERTICES_CONNECTED:
        return spec.native_active_vertices_connected(xs, lambda x: rb(x, env))
    if op == Op.GRAPH_DIVISION:
        return spec.native_graph_division(xs, lambda x: ri(x, env), lambda x: rb(x, env))
    raise RefTypeError("boolean expected, got op %s" % (op,))


def ri(e, env):
    """Integer-typed reference term."""
    if isinstance(e, bool):
        raise RefTypeError("integer expected, got bool literal %r" % (e,))
    if isinstance(e, int):
        return z3.IntVal(e)
    if isinstance(e, IntVar):
        return env.z(e)
    if not isinstance(e, Expr) or isinstance(e, BoolVar):
        raise RefTypeError("integer expected, got %r" % (e,))
    op, xs = e.op, e.operands
    if op == Op.INT_CONSTANT:
        if len(xs) != 1 or isinstance(xs[0], bool) or not isinstance(xs[0], int):
            raise RefTypeError("INT_CONSTANT operand")
        return z3.IntVal(xs[0])
    if op == Op.NEG:
        if len(xs) != 1:
            raise RefTypeError("NEG arity")
        return -ri(xs[0], env)
    if op == Op.ADD:
        if not xs:
            raise RefTypeError("empty ADD")
        ts = [ri(x, env) for x in xs]
        r = ts[0]
        for t in ts[1:]:
            r = r + t
        return r
    if op == Op.SUB:
        if not xs:
            raise RefTypeError("empty SUB")
        ts = [ri(x, env) for x in xs]
        r = ts[0]
        for t in ts[1:]:
            r = r - t
        return r
    if op == Op.IF:
        if len(xs) != 3:
            raise RefTypeError("IF arity")
        return z3.If(rb(xs[0], env), ri(xs[1], env), ri(xs[2], env))
    raise RefTypeError("integer expected, got op %s" % (op,))


def r_any(e, env):
    """Translate without knowing the type in advance; returns (kind, term)."""
    if isinstance(e, bool):
        return "bool", z3.BoolVal(e)
    if isinstance(e, int):
        return "int", z3.IntVal(e)
    if isinstance(e, BoolExpr):
        return "bool", rb(e, env)
    if isinstance(e, IntExpr):
        return "int", ri(e, env)
    raise RefTypeError("not an expression: %r" % (e,))


def collect_vars(es):
    """All variable objects occurring in the trees (by identity), in first-occurrence order."""
    seen, out = set(), []

    def go(e):
        if isinstance(e, (BoolVar, IntVar)):
            if id(e) not in seen:
                seen.add(id(e))
                out.append(e)
        elif isinstance(e, Expr):
            for x in e.operands:
                go(x)
        elif isinstance(e, (list, tuple)):
            for x in e:
                go(x)
    for e in es:
        go(e)
    return out


def show(e):
    """Compact printable form of a tree (for evidence samples)."""
    if isinstance(e, BoolVar):
        return "b%d" % e.id
    if isinstance(e, IntVar):
        return "i%d[%d,%d]" % (e.id, e.lo, e.hi)
    if isinstance(e, Expr):
        return "(%s %s)" % (e.op.name, " ".join(show(x) for x in e.operands))
    return repr(e)


def pyeval(e, assign):
    """Plain-Python evaluation of a tree under assign: id(var) -> value (no solver)."""
    if isinstance(e, (bool, int)):
        return e
    if isinstance(e, (BoolVar, IntVar)):
        return assign[id(e)]
    op = e.op
    if op in (Op.GRAPH_ACTIVE_VERTICES_CONNECTED, Op.GRAPH_DIVISION):
        raise RefTypeError("pyeval: native graph operators are not evaluated here")
    xs = [pyeval(x, assign) for x in e.operands]
    if op in (Op.BOOL_CONSTANT, Op.INT_CONSTANT):
        return xs[0]
    if op == Op.NEG:
        return -xs[0]
    if op == Op.ADD:
        return sum(xs[1:], xs[0])
    if op == Op.SUB:
        r = xs[0]
        for t in xs[1:]:
            r -= t
        return r
    if op == Op.EQ:
        return xs[0] == xs[1]
    if op == Op.NE:
        return xs[0] != xs[1]
    if op == Op.LE:
        return xs[0] <= xs[1]
    if op == Op.LT:
        return xs[0] < xs[1]
    if op == Op.GE:
        return xs[0] >= xs[1]
    if op == Op.GT:
        return xs[0] > xs[1]
    if op == Op.NOT:
        return not xs[0]
    if op == Op.AND:
        return all(xs)
    if op == Op.OR:
        return any(xs)
    if op == Op.IFF:
        return bool(xs[0]) == bool(xs[1])
    if op == Op.XOR:
        return bool(xs[0]) != bool(xs[1])
    if op == Op.IMP:
        return (not xs[0]) or bool(xs[1])
    if op == Op.IF:
        return xs[1] if xs[0] else xs[2]
    if op == Op.ALLDIFF:
        return len(set(xs)) == len(xs)
    raise RefTypeError("pyeval: unsupported op %s" % op)
