"""A small grammar of DSL expression trees, built only through cspuz's *public* constructors.

A tree description is a nested tuple; mk(desc, bvars, ivars) builds the real Expr (or Python
literal) from it.  Descriptions are picklable/JSON-able and are what replay files contain.
"""
import cspuz
from cspuz import constraints as C
from cspuz.array import BoolArray1D, IntArray1D
from cspuz.expr import Expr

BOOL_BIN = ("and", "or", "iff", "xor", "bne")
INT_CMP = ("eq", "ne", "lt", "le", "gt", "ge")
INT_LITS = (-2, 0, 1, 7)


class Unbuildable(Exception):
    """the description asks for something Python itself would not type as a DSL expression
    (e.g. ~True); not a cspuz behaviour"""


def kind_of(d):
    t = d[0]
    if t in ("bv",) or t in BOOL_BIN or t in INT_CMP or t in ("not", "then", "cthen", "fold_and", "fold_or", "alldiff",
                                                             "arr_fold_or", "arr_fold_and", "arr_alldiff", "m_fold_or",
                                                             "m_fold_and"):
        return "B"
    if t == "lit":
        return "B" if isinstance(d[1], bool) else "I"
    return "I"


def mk(d, bv, iv):
    t = d[0]
    if t == "bv":
        return bv[d[1]]
    if t == "iv":
        return iv[d[1]]
    if t == "lit":
        return d[1]
    if t == "neg":
        a = mk(d[1], bv, iv)
        if not isinstance(a, Expr):
            raise Unbuildable()
        return -a
    if t in ("add", "sub"):
        a, b = mk(d[1], bv, iv), mk(d[2], bv, iv)
        if not isinstance(a, Expr) and not isinstance(b, Expr):
            raise Unbuildable()
        return a + b if t == "add" else a - b
    if t in ("nadd", "nsub"):      # n-ary node built directly (legal in the expression layer: "n-ary + and -")
        from cspuz.expr import IntExpr, Op
        return IntExpr(Op.ADD if t == "nadd" else Op.SUB, [mk(x, bv, iv) for x in d[1]])
    if t == "cond":       # method form
        c, x, y = mk(d[1], bv, iv), mk(d[2], bv, iv), mk(d[3], bv, iv)
        if not isinstance(c, Expr):
            raise Unbuildable()
        return c.cond(x, y)
    if t == "ccond":      # function form (accepts a literal condition)
        return C.cond(mk(d[1], bv, iv), mk(d[2], bv, iv), mk(d[3], bv, iv))
    if t == "count_true":
        return C.count_true([mk(x, bv, iv) for x in d[1]])
    if t == "m_count_true":
        a = mk(d[1], bv, iv)
        if not isinstance(a, Expr):
            raise Unbuildable()
        return a.count_true()
    if t in INT_CMP:
        a, b = mk(d[1], bv, iv), mk(d[2], bv, iv)
        if not isinstance(a, Expr) and not isinstance(b, Expr):
            raise Unbuildable()
        return {"eq": lambda: a == b, "ne": lambda: a != b, "lt": lambda: a < b, "le": lambda: a <= b,
                "gt": lambda: a > b, "ge": lambda: a >= b}[t]()
    if t == "not":
        a = mk(d[1], bv, iv)
        if not isinstance(a, Expr):
            raise Unbuildable()
        return ~a
    if t in BOOL_BIN:
        a, b = mk(d[1], bv, iv), mk(d[2], bv, iv)
        if not isinstance(a, Expr) and not isinstance(b, Expr):
            raise Unbuildable()
        return {"and": lambda: a & b, "or": lambda: a | b, "iff": lambda: a == b, "xor": lambda: a ^ b,
                "bne": lambda: a != b}[t]()
    if t == "then":
        a, b = mk(d[1], bv, iv), mk(d[2], bv, iv)
        if not isinstance(a, Expr):
            raise Unbuildable()
        return a.then(b)
    if t == "cthen":
        return C.then(mk(d[1], bv, iv), mk(d[2], bv, iv))
    if t == "fold_and":
        return C.fold_and([mk(x, bv, iv) for x in d[1]])
    if t == "fold_or":
        return C.fold_or([mk(x, bv, iv) for x in d[1]])
    if t in ("m_fold_or", "m_fold_and"):
        a = mk(d[1], bv, iv)
        if not isinstance(a, Expr):
            raise Unbuildable()
        return a.fold_or() if t == "m_fold_or" else a.fold_and()
    if t == "alldiff":
        return C.alldifferent([mk(x, bv, iv) for x in d[1]])
    if t == "arr_fold_or":
        return BoolArray1D([mk(x, bv, iv) for x in d[1]]).fold_or()
    if t == "arr_fold_and":
        return BoolArray1D([mk(x, bv, iv) for x in d[1]]).fold_and()
    if t == "arr_alldiff":
        return IntArray1D([mk(x, bv, iv) for x in d[1]]).alldifferent()
    raise ValueError("unknown tree tag %r" % (t,))


# -------------------------------------------------------------------------------------------
# enumeration / generation
# -------------------------------------------------------------------------------------------
def bool_leaves(nb=2):
    return [("bv", k) for k in range(nb)] + [("lit", True), ("lit", False)]


def int_leaves(ni=2):
    return [("iv", k) for k in range(ni)] + [("lit", c) for c in INT_LITS]


def is_lit(d):
    return d[0] == "lit"


# constructor table: name -> (result kind, argument kinds); 'Bs'/'Is' are lists
CONSTRUCTORS = {
    "neg": ("I", ("I",)), "add": ("I", ("I", "I")), "sub": ("I", ("I", "I")),
    "cond": ("I", ("B", "I", "I")), "ccond": ("I", ("B", "I", "I")),
    "count_true": ("I", ("Bs",)), "m_count_true": ("I", ("B",)), "nadd": ("I", ("Is1",)), "nsub": ("I", ("Is1",)),
    "eq": ("B", ("I", "I")), "ne": ("B", ("I", "I")), "lt": ("B", ("I", "I")), "le": ("B", ("I", "I")),
    "gt": ("B", ("I", "I")), "ge": ("B", ("I", "I")),
    "not": ("B", ("B",)), "and": ("B", ("B", "B")), "or": ("B", ("B", "B")), "iff": ("B", ("B", "B")),
    "xor": ("B", ("B", "B")), "bne": ("B", ("B", "B")), "then": ("B", ("B", "B")), "cthen": ("B", ("B", "B")),
    "fold_and": ("B", ("Bs",)), "fold_or": ("B", ("Bs",)), "alldiff": ("B", ("Is",)),
    "arr_fold_or": ("B", ("Bs",)), "arr_fold_and": ("B", ("Bs",)), "arr_alldiff": ("B", ("Is",)),
    "m_fold_or": ("B", ("B",)), "m_fold_and": ("B", ("B",)),
}


def buildable(d):
    """static approximation of mk()'s Unbuildable: operators that need at least one Expr operand"""
    t = d[0]
    if t in ("bv", "iv", "lit"):
        return True
    args = d[1:]
    flat = []
    for a in args:
        if isinstance(a, list):
            flat += a
        else:
            flat.append(a)
    if not all(buildable(a) for a in flat):
        return False
    def lit_valued(x):
        # does the built object end up a Python literal?  (only literals themselves do)
        return x[0] == "lit"
    if t == "nsub" and len(args[0]) < 2:
        return False          # a one-operand SUB is not a program the library can produce; Sugar reads "(- x)" as negation
    if t in ("neg", "not", "m_count_true", "m_fold_or", "m_fold_and", "cond", "then"):
        return not lit_valued(args[0])
    if t in ("add", "sub") + INT_CMP + BOOL_BIN:
        return not (lit_valued(args[0]) and lit_valued(args[1]))
    return True


def depth1(nb=2, ni=2, max_list=3):
    """every constructor applied to leaves (lists: all lists of length 0..max_list over a reduced leaf set)"""
    import itertools
    B, I = bool_leaves(nb), int_leaves(ni)
    Bl = [("bv", 0), ("bv", 1), ("lit", True), ("lit", False)]
    Il = [("iv", 0), ("iv", 1), ("lit", 1), ("lit", -2)]
    out = []
    for name, (rk, aks) in CONSTRUCTORS.items():
        pools = []
        for k in aks:
            if k == "B":
                pools.append(B)
            elif k == "I":
                pools.append(I)
            elif k == "Bs":
                pools.append([list(c) for n in range(max_list + 1) for c in itertools.product(Bl, repeat=n)])
            elif k == "Is1":
                pools.append([list(c) for n in range(1, max_list + 2) for c in itertools.product(Il, repeat=n)])
            else:
                pools.append([list(c) for n in range(max_list + 1) for c in itertools.product(Il, repeat=n)])
        for combo in itertools.product(*pools):
            d = (name,) + tuple(combo)
            if buildable(d):
                out.append(d)
    return out


def random_tree(rng, kind, depth, nb=2, ni=2):
    if depth == 0 or rng.random() < 0.15:
        return rng.choice(bool_leaves(nb) if kind == "B" else int_leaves(ni))
    for _ in range(50):
        name = rng.choice([n for n, (rk, _) in CONSTRUCTORS.items() if rk == kind])
        d = _fill(rng, name, depth, nb, ni)
        if buildable(d):
            return d
    return rng.choice(bool_leaves(nb) if kind == "B" else int_leaves(ni))


def _fill(rng, name, depth, nb, ni, force=None):
    aks = CONSTRUCTORS[name][1]
    args = []
    for pos, k in enumerate(aks):
        if force is not None and force[0] == pos:
            sub = force[1]
            args.append([sub] + [random_tree(rng, k[0], depth - 1, nb, ni) for _ in range(rng.randint(0, 2))] if k in ("Bs", "Is", "Is1") else sub)
        elif k == "Is1":
            args.append([random_tree(rng, "I", depth - 1, nb, ni) for _ in range(rng.randint(1, 4))])
        elif k in ("Bs", "Is"):
            args.append([random_tree(rng, k[0], depth - 1, nb, ni) for _ in range(rng.randint(0, 3))])
        else:
            args.append(random_tree(rng, k, depth - 1, nb, ni))
    return (name,) + tuple(args)


def pair_cover(rng, depth, reps, nb=2, ni=2):
    """for every (parent constructor, argument position, child constructor) of matching kind: `reps` random trees
    of the given depth having that parent/child pair at the root"""
    out = []
    for pn, (prk, paks) in CONSTRUCTORS.items():
        for pos, k in enumerate(paks):
            for cn, (crk, _) in CONSTRUCTORS.items():
                if crk != k[0]:
                    continue
                for _ in range(reps):
                    for _try in range(20):
                        child = _fill(rng, cn, depth - 1, nb, ni)
                        d = _fill(rng, pn, depth, nb, ni, force=(pos, child))
                        if buildable(d):
                            out.append(d)
                            break
                # the same pair with every sibling operand a Python literal, and with every sibling a variable
                # (reflected operator forms such as  literal - (a - b)  are separate code paths)
                if not any(a in ("Bs", "Is", "Is1") for a in paks):
                    for sib in ("lit", "var"):
                      for _try in range(12):
                        child = _fill(rng, cn, 1, nb, ni)
                        if not buildable(child):
                            continue
                        args = []
                        for q, a in enumerate(paks):
                            if q == pos:
                                args.append(child)
                            elif sib == "lit":
                                args.append(("lit", rng.choice([True, False])) if a == "B" else ("lit", rng.choice(INT_LITS)))
                            else:
                                args.append(("bv", rng.randrange(nb)) if a == "B" else ("iv", rng.randrange(ni)))
                        d = (pn,) + tuple(args)
                        if buildable(d):
                            out.append(d)
                            break
    return out


def as_constraint(rng, d):
    """make a boolean-typed root out of any tree"""
    if kind_of(d) == "B":
        return d
    return (rng.choice(INT_CMP), d, rng.choice([("iv", 0), ("lit", 1), ("lit", 0)]))


def to_json(d):
    if isinstance(d, tuple):
        return [to_json(x) for x in d]
    if isinstance(d, list):
        return {"list": [to_json(x) for x in d]}
    return d


def from_json(j):
    if isinstance(j, dict):
        return [from_json(x) for x in j["list"]]
    if isinstance(j, list):
        return tuple(from_json(x) for x in j)
    return j


# -------------------------------------------------------------------------------------------
# independent meaning of a *description* (not of the tree the library built from it): what the
# public constructor named by the tag is documented to denote.  zb / zi map variable indices to z3 terms.
# -------------------------------------------------------------------------------------------
def ref_desc(d, zb, zi):
    import z3
    t = d[0]
    R = lambda x: ref_desc(x, zb, zi)   # noqa: E731
    if t == "bv":
        return zb[d[1]]
    if t == "iv":
        return zi[d[1]]
    if t == "lit":
        return z3.BoolVal(d[1]) if isinstance(d[1], bool) else z3.IntVal(d[1])
    if t == "neg":
        return -R(d[1])
    if t == "add":
        return R(d[1]) + R(d[2])
    if t == "sub":
        return R(d[1]) - R(d[2])
    if t in ("nadd", "nsub"):
        xs = [R(x) for x in d[1]]
        r = xs[0]
        for x in xs[1:]:
            r = r + x if t == "nadd" else r - x
        return r
    if t in ("cond", "ccond"):
        return z3.If(R(d[1]), R(d[2]), R(d[3]))
    if t == "count_true":
        xs = [R(x) for x in d[1]]
        return z3.Sum([z3.If(x, 1, 0) for x in xs]) if xs else z3.IntVal(0)
    if t == "m_count_true":
        return z3.If(R(d[1]), 1, 0)
    if t in INT_CMP:
        a, b = R(d[1]), R(d[2])
        return {"eq": a == b, "ne": a != b, "lt": a < b, "le": a <= b, "gt": a > b, "ge": a >= b}[t]
    if t == "not":
        return z3.Not(R(d[1]))
    if t in BOOL_BIN:
        a, b = R(d[1]), R(d[2])
        return {"and": z3.And(a, b), "or": z3.Or(a, b), "iff": a == b, "xor": z3.Xor(a, b), "bne": z3.Xor(a, b)}[t]
    if t in ("then", "cthen"):
        return z3.Implies(R(d[1]), R(d[2]))
    if t in ("fold_and", "arr_fold_and"):
        xs = [R(x) for x in d[1]]
        return z3.And(xs) if xs else z3.BoolVal(True)
    if t in ("fold_or", "arr_fold_or"):
        xs = [R(x) for x in d[1]]
        return z3.Or(xs) if xs else z3.BoolVal(False)
    if t in ("m_fold_or", "m_fold_and"):
        return R(d[1])
    if t in ("alldiff", "arr_alldiff"):
        xs = [R(x) for x in d[1]]
        out = [xs[i] != xs[j] for i in range(len(xs)) for j in range(i)]
        return z3.And(out) if out else z3.BoolVal(True)
    raise ValueError("unknown tree tag %r" % (t,))


def py_desc(d, vb, vi):
    """plain-Python value of a description under concrete variable values (solver-free twin of ref_desc)"""
    t = d[0]
    P = lambda x: py_desc(x, vb, vi)   # noqa: E731
    if t == "bv":
        return vb[d[1]]
    if t == "iv":
        return vi[d[1]]
    if t == "lit":
        return d[1]
    if t == "neg":
        return -P(d[1])
    if t == "add":
        return P(d[1]) + P(d[2])
    if t == "sub":
        return P(d[1]) - P(d[2])
    if t in ("nadd", "nsub"):
        xs = [P(x) for x in d[1]]
        r = xs[0]
        for x in xs[1:]:
            r = r + x if t == "nadd" else r - x
        return r
    if t in ("cond", "ccond"):
        return P(d[2]) if P(d[1]) else P(d[3])
    if t == "count_true":
        return sum(1 for x in d[1] if P(x))
    if t == "m_count_true":
        return 1 if P(d[1]) else 0
    if t in INT_CMP:
        a, b = P(d[1]), P(d[2])
        return {"eq": a == b, "ne": a != b, "lt": a < b, "le": a <= b, "gt": a > b, "ge": a >= b}[t]
    if t == "not":
        return not P(d[1])
    if t in BOOL_BIN:
        a, b = bool(P(d[1])), bool(P(d[2]))
        return {"and": a and b, "or": a or b, "iff": a == b, "xor": a != b, "bne": a != b}[t]
    if t in ("then", "cthen"):
        return (not P(d[1])) or bool(P(d[2]))
    if t in ("fold_and", "arr_fold_and"):
        return all(P(x) for x in d[1])
    if t in ("fold_or", "arr_fold_or"):
        return any(P(x) for x in d[1])
    if t in ("m_fold_or", "m_fold_and"):
        return bool(P(d[1]))
    if t in ("alldiff", "arr_alldiff"):
        xs = [P(x) for x in d[1]]
        return len(set(xs)) == len(xs)
    raise ValueError("unknown tree tag %r" % (t,))
