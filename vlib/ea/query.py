"""Engine A: decide  {x | exists aux. F(x,aux)} == {x | R(x)}  for one emitted constraint program.

A check module provides  build(desc) -> Built.  `desc` is a small picklable dict that names the
instance (graph, shape, options); build() runs the *real* cspuz function on a fresh recording
Solver.  Everything below is generic.
"""
import importlib
import multiprocessing as mp
import os
import time
import traceback

import z3

from cspuz.expr import BoolVar, IntVar

from . import ref


class Built:
    def __init__(self, solver, xvars, spec_z3, spec_py, constraints=None, note=None, x_extra_domain=None):
        self.solver = solver
        self.xvars = list(xvars)          # caller-visible variables (incl. returned arrays)
        self.spec_z3 = spec_z3            # env -> z3 Bool  (aux-free, over xvars only)
        self.spec_py = spec_py            # (dict id(var)->value) -> bool
        self.constraints = solver.constraints if constraints is None else constraints
        self.note = note
        self.x_extra_domain = x_extra_domain   # optional env -> z3 Bool precondition on x


def has_native(constraints):
    from cspuz.expr import Expr, Op

    def go(e):
        if isinstance(e, Expr):
            if e.op in (Op.GRAPH_ACTIVE_VERTICES_CONNECTED, Op.GRAPH_DIVISION):
                return True
            return any(go(x) for x in e.operands)
        return False
    return any(go(c) for c in constraints)


def _model_vals(model, env, vs):
    out = []
    for v in vs:
        zv = env.z(v)
        mv = model.eval(zv, model_completion=True)
        if isinstance(v, BoolVar):
            out.append(bool(z3.is_true(mv)))
        else:
            out.append(mv.as_long())
    return out


def _check(s, timeout_ms):
    s.set("timeout", int(timeout_ms))
    t = time.time()
    r = s.check()
    return str(r), time.time() - t


def decide(mod_name, desc, timeout_s=60, want=("sound", "complete", "inhabited")):
    """Runs in a worker process.  Returns a picklable result dict."""
    res = {"desc": desc, "queries": [], "status": "ok"}
    t0 = time.time()
    try:
        mod = importlib.import_module(mod_name)
        try:
            b = mod.build(desc)
        except Exception as e:  # the real code raised while emitting: a counterexample by itself
            res["status"] = "build-exception"
            res["exception"] = "%s: %s" % (type(e).__name__, e)
            res["trace"] = traceback.format_exc()[-1500:]
            return res
        env = ref.Env()
        xset = set(id(v) for v in b.xvars)
        allvars = list(b.solver.variables)
        aux = [v for v in allvars if id(v) not in xset]
        try:
            Fs = [ref.rb(c, env) for c in b.constraints]
        except (ref.RefTypeError, Exception) as e:
            res["status"] = "illtyped-program"
            res["exception"] = "%s: %s" % (type(e).__name__, e)
            return res
        Fz = z3.And(Fs) if Fs else z3.BoolVal(True)
        R = b.spec_z3(env)
        domx = env.domain(b.xvars)
        if b.x_extra_domain is not None:
            domx = z3.And(domx, b.x_extra_domain(env))
        domaux = env.domain(aux)
        res["n_x"], res["n_aux"], res["n_constraints"] = len(b.xvars), len(aux), len(b.constraints)
        tmo = timeout_s * 1000

        if "inhabited" in want:
            s = z3.Solver()
            s.add(domx, R)
            v, dt = _check(s, tmo)
            res["queries"].append(("R-inhabited", v, dt))
            s = z3.Solver()
            s.add(domx, domaux, Fz)
            v2, dt = _check(s, tmo)
            res["queries"].append(("F-inhabited", v2, dt))
            res["inhabited"] = (v, v2)

        if "sound" in want:
            s = z3.Solver()
            s.add(domx, domaux, Fz, z3.Not(R))
            v, dt = _check(s, tmo)
            res["queries"].append(("sound", v, dt))
            res["sound"] = v
            if v == "sat":
                res["sound_witness"] = _model_vals(s.model(), env, b.xvars)

        if "complete" in want:
            s = z3.Solver()
            s.add(domx, R)
            auxz = [env.z(v) for v in aux]
            if auxz:
                s.add(z3.ForAll(auxz, z3.Implies(domaux, z3.Not(Fz))))
            else:
                s.add(z3.Not(Fz))
            v, dt = _check(s, tmo)
            res["queries"].append(("complete", v, dt))
            res["complete"] = v
            if v == "sat":
                res["complete_witness"] = _model_vals(s.model(), env, b.xvars)
    except Exception as e:
        res["status"] = "harness-exception"
        res["exception"] = "%s: %s" % (type(e).__name__, e)
        res["trace"] = traceback.format_exc()[-2000:]
    res["wall"] = time.time() - t0
    return res


def replay(mod_name, desc, kind, witness, verbose=False):
    """Re-run against the real code, without the reference translator in the loop:
    pin x to the witness, ask the real z3 back end through Solver.find_answer, and compare with
    the plain-Python specification.  Returns (reproduced: bool, detail: str)."""
    mod = importlib.import_module(mod_name)
    if kind == "build-exception":
        try:
            mod.build(desc)
        except Exception as e:
            return True, "%s: %s" % (type(e).__name__, e)
        return False, "no exception on replay"
    b = mod.build(desc)
    assign = {}
    for v, val in zip(b.xvars, witness):
        assign[id(v)] = val
        if isinstance(v, BoolVar):
            b.solver.ensure(v if val else ~v)
        else:
            b.solver.ensure(v == val)
    # the constraints list captured may be a subset (b.constraints) - for replay use the real solver as is
    try:
        if has_native(b.solver.constraints):
            # native graph operators: the real text back end with a correct external solver behind it
            from . import sugartext
            real = b.solver.find_answer(backend=sugartext.fake_backend())
        else:
            real = b.solver.find_answer(backend="z3")
    except Exception as e:
        return False, "real z3 back end raised during replay: %s: %s" % (type(e).__name__, e)
    want = bool(b.spec_py(assign))
    if verbose:
        print("replay kind=%s real_satisfiable=%s spec_says=%s witness=%r" % (kind, real, want, witness))
    if kind == "sound":
        return (real and not want), "real satisfiable=%s, specification=%s" % (real, want)
    if kind == "complete":
        return ((not real) and want), "real satisfiable=%s, specification=%s" % (real, want)
    return False, "unknown kind"


def isolated(fn, *args):
    """fn(*args) in a child forked for this one call (result pickled back through a pipe).  Pool workers and the coordinating
    process never execute the code under test themselves, so module-level state (caches, memo tables, mutable defaults) can
    never leak from one instance or replay into another: every instance starts from the freshly imported library."""
    import pickle
    r, w = os.pipe()
    pid = os.fork()
    if pid == 0:
        code = 0
        try:
            os.close(r)
            try:
                payload = pickle.dumps(("ok", fn(*args)))
            except BaseException as e:      # noqa: B902 - reported to the parent, which re-raises
                payload = pickle.dumps(("exc", "%s: %s\n%s" % (type(e).__name__, e, traceback.format_exc()[-1500:])))
            with os.fdopen(w, "wb") as f:
                f.write(payload)
        except BaseException:
            code = 1
        finally:
            os._exit(code)
    os.close(w)
    with os.fdopen(r, "rb") as f:
        data = f.read()
    os.waitpid(pid, 0)
    if not data:
        raise RuntimeError("isolated child died without a result")
    kind, val = pickle.loads(data)
    if kind == "exc":
        raise RuntimeError("isolated child raised " + val)
    return val


def _worker(args):
    mod_name, desc, timeout_s, want = args
    return isolated(decide, mod_name, desc, timeout_s, want)


def run_pool(mod_name, descs, timeout_s, want=("sound", "complete", "inhabited"), jobs=None, progress=None):
    """Run decide() for every desc on a process pool (fresh process per few tasks to bound memory)."""
    from .. import common
    jobs = jobs or common.ncores()
    ctx = mp.get_context("fork")
    out = []
    if not descs:
        return out
    with ctx.Pool(min(jobs, len(descs)), maxtasksperchild=64) as pool:      # (each task runs in its own forked child, see isolated())
        for r in pool.imap_unordered(_worker, [(mod_name, d, timeout_s, want) for d in descs]):
            out.append(r)
            if progress:
                progress(r)
    return out


def _fresh_entry(args):
    modname, fn, fargs = args
    return getattr(importlib.import_module(modname), fn)(*fargs)


def fresh_call(modname, fn, *fargs, timeout=600):
    """modname.fn(*fargs) in a forked child of this process (see isolated())"""
    return isolated(_fresh_entry, (modname, fn, fargs))


def replay_for(d):
    """replay function for an instance description: always in a fresh child process"""
    return lambda mod_name, desc, kind, w: tuple(fresh_call("vlib.ea.query", "replay", mod_name, desc, kind, w))


def absorb(rep, mod_name, results, key_of, label):
    """Fold worker results into the Report: counts, samples, counterexample replay."""
    for r in results:
        d = r["desc"]
        name = d.get("name", str(d))
        rep.programs += 1
        rep.evaluations += 1
        for (q, v, dt) in r.get("queries", []):
            rep.count_query("%s:%s" % (q, v), dt)
        if r["status"] == "build-exception":
            ok, detail = replay_for(d)(mod_name, d, "build-exception", None)
            rep.counterexample(key_of(d, "exception"), "%s raised while emitting %s: %s" % (label, name, r["exception"]),
                               {"module": mod_name, "desc": d, "kind": "build-exception"}, ok)
            continue
        if r["status"] != "ok":
            rep.harness_error("%s on %s: %s\n%s" % (r["status"], name, r.get("exception"), r.get("trace", "")))
            continue
        inh = r.get("inhabited")
        if inh is not None and inh[0] == "unsat":
            # empty specification side is legitimate for some instances (e.g. impossible sizes); record
            rep.extra.setdefault("R_empty_instances", []).append(name)
        for kind in ("sound", "complete"):
            if kind not in r:
                continue
            v = r[kind]
            if v == "unsat":
                rep.ok()
                rep.distinct.add((name, kind))
            elif v == "sat":
                w = r[kind + "_witness"]
                ok, detail = replay_for(d)(mod_name, d, kind, w)
                what = ("accepts a pattern the specification rejects" if kind == "sound"
                        else "rejects a pattern the specification admits")
                rep.counterexample(key_of(d, kind), "%s %s on %s: x=%r (%s)" % (label, what, name, w, detail),
                                   {"module": mod_name, "desc": d, "kind": kind, "witness": w}, ok)
            else:
                rep.inconc("%s %s: %s" % (name, kind, v))
        rep.sample({"instance": name, "x_vars": r.get("n_x"), "aux_vars": r.get("n_aux"),
                    "constraints": r.get("n_constraints"),
                    "queries": [(q, v, round(dt, 3)) for q, v, dt in r.get("queries", [])]})


# ---------------------------------------------------------------------------------------------------------------------
# "spot" mode for instances too large for the exists-forall query: the caller's variables are pinned to given patterns
# (chosen adversarially: long chains, spirals), the solver still decides over ALL auxiliary assignments, and the verdict is
# compared with the plain-Python specification.  Weaker than the set-equality queries (patterns are a sample) - labelled so.
# ---------------------------------------------------------------------------------------------------------------------
def decide_spot(mod_name, desc, timeout_s=60):
    res = {"desc": desc, "queries": [], "status": "ok", "spot": []}
    try:
        mod = importlib.import_module(mod_name)
        try:
            b = mod.build(desc)
        except Exception as e:
            res["status"] = "build-exception"
            res["exception"] = "%s: %s" % (type(e).__name__, e)
            return res
        env = ref.Env()
        Fz = z3.And([ref.rb(c, env) for c in b.constraints] or [z3.BoolVal(True)])
        dom = env.domain(list(b.solver.variables))
        for pat in desc["patterns"]:
            s = z3.Solver()
            s.add(dom, Fz)
            assign = {}
            for v, val in zip(b.xvars, pat):
                assign[id(v)] = val
                s.add(env.z(v) == (z3.BoolVal(val) if isinstance(v, BoolVar) else z3.IntVal(val)))
            v, dt = _check(s, timeout_s * 1000)
            want = bool(b.spec_py(assign))
            res["queries"].append(("spot", v, dt))
            res["spot"].append((list(pat), v, want))
    except Exception as e:
        res["status"] = "harness-exception"
        res["exception"] = "%s: %s" % (type(e).__name__, e)
        res["trace"] = traceback.format_exc()[-2000:]
    return res


def _spot_worker(args):
    return isolated(decide_spot, *args)


def run_spot(rep, mod_name, descs, key_of, label, timeout_s=60):
    from .. import common
    if not descs:
        return
    ctx = mp.get_context("fork")
    with ctx.Pool(min(common.ncores(), len(descs)), maxtasksperchild=64) as pool:
        results = list(pool.imap_unordered(_spot_worker, [(mod_name, d, timeout_s) for d in descs]))
    n = 0
    for r in results:
        d = r["desc"]
        if r["status"] == "build-exception":
            ok, detail = replay_for(d)(mod_name, d, "build-exception", None)
            rep.counterexample(key_of(d, "exception"), "%s raised on %s: %s" % (label, d["name"], r["exception"]),
                               {"module": mod_name, "desc": d, "kind": "build-exception"}, ok)
            continue
        if r["status"] != "ok":
            rep.harness_error("%s on %s: %s" % (r["status"], d["name"], r.get("exception")))
            continue
        for (q, v, dt) in r["queries"]:
            rep.count_query("%s:%s" % (q, v), dt)
        for pat, v, want in r["spot"]:
            n += 1
            if v not in ("sat", "unsat"):
                rep.inconc("%s spot: %s" % (d["name"], v))
            elif (v == "sat") == want:
                rep.ok()
                rep.distinct.add((d["name"], "spot", tuple(pat)))
            else:
                kind = "sound" if v == "sat" else "complete"
                ok, detail = replay(mod_name, {k: x for k, x in d.items() if k != "patterns"}, kind, pat)
                rep.counterexample(key_of(d, kind), "%s %s the pinned pattern %r on %s (%s)" % (
                    label, "accepts" if v == "sat" else "rejects", pat, d["name"], detail),
                    {"module": mod_name, "desc": {k: x for k, x in d.items() if k != "patterns"}, "kind": kind, "witness": pat}, ok)
    rep.extra["spot_patterns_decided"] = rep.extra.get("spot_patterns_decided", 0) + n
