"""Independent reader of the Sugar CSP text that cspuz hands to external solvers, and a small
"correct external solver" (z3 behind the text protocol) that answers in the two reply formats of
sugar_extension/CspuzSugarInterface.java.  Written from the Sugar syntax + that Java file, not
from cspuz.backend.sugar_like.
"""
import z3

from . import spec


class SugarSyntaxError(Exception):
    pass


def tokenize(line):
    out, cur = [], ""
    for ch in line:
        if ch in "()":
            if cur:
                out.append(cur)
                cur = ""
            out.append(ch)
        elif ch.isspace():
            if cur:
                out.append(cur)
                cur = ""
        else:
            cur += ch
    if cur:
        out.append(cur)
    return out


def parse_sexpr(tokens):
    pos = 0

    def go():
        nonlocal pos
        if pos >= len(tokens):
            raise SugarSyntaxError("unexpected end")
        t = tokens[pos]
        pos += 1
        if t == "(":
            items = []
            while True:
                if pos >= len(tokens):
                    raise SugarSyntaxError("missing )")
                if tokens[pos] == ")":
                    pos += 1
                    return items
                items.append(go())
        if t == ")":
            raise SugarSyntaxError("unexpected )")
        return t
    r = go()
    if pos != len(tokens):
        raise SugarSyntaxError("trailing tokens")
    return r


def _is_int_literal(t):
    if not isinstance(t, str):
        return False
    s = t[1:] if t[:1] == "-" else t
    return s.isdigit() and s.isascii()


class Program:
    """decls: list of (name, kind, lo, hi) in text order; constraints: z3 Bool terms; keys: list or None"""

    def __init__(self, text, prefix="t"):
        self.decls = []
        self.names = {}
        self.constraints = []
        self.keys = None
        self.prefix = prefix
        self.lines = text.split("\n")
        for line in self.lines:
            if line.startswith("#"):
                if self.keys is not None:
                    raise SugarSyntaxError("two answer-key lines")
                body = line[1:]
                self.keys = body.split(" ") if body != "" else []
                continue
            if line.strip() == "":
                raise SugarSyntaxError("blank line in CSP text")
            sx = parse_sexpr(tokenize(line))
            if isinstance(sx, list) and sx and sx[0] == "int" and len(sx) == 4 and all(isinstance(a, str) for a in sx):
                name = sx[1]
                if name in self.names:
                    raise SugarSyntaxError("duplicate declaration " + name)
                lo, hi = int(sx[2]), int(sx[3])
                zv = z3.Int(prefix + name)
                self.names[name] = ("int", zv)
                self.decls.append((name, "int", lo, hi))
            elif isinstance(sx, list) and sx and sx[0] == "bool" and len(sx) == 2:
                name = sx[1]
                if name in self.names:
                    raise SugarSyntaxError("duplicate declaration " + name)
                self.names[name] = ("bool", z3.Bool(prefix + name))
                self.decls.append((name, "bool", None, None))
            else:
                self.constraints.append(self.tb(sx))

    # typed translation --------------------------------------------------------------
    def tb(self, sx):
        if isinstance(sx, str):
            if sx == "true":
                return z3.BoolVal(True)
            if sx == "false":
                return z3.BoolVal(False)
            if sx in self.names and self.names[sx][0] == "bool":
                return self.names[sx][1]
            raise SugarSyntaxError("boolean atom expected: %r" % sx)
        if not sx:
            raise SugarSyntaxError("empty list")
        op, xs = sx[0], sx[1:]
        if op in ("=", "!=", "<=", "<", ">=", ">"):
            if len(xs) != 2:
                raise SugarSyntaxError("comparison arity")
            a, b = self.ti(xs[0]), self.ti(xs[1])
            return {"=": a == b, "!=": a != b, "<=": a <= b, "<": a < b, ">=": a >= b, ">": a > b}[op]
        if op == "!":
            if len(xs) != 1:
                raise SugarSyntaxError("! arity")
            return z3.Not(self.tb(xs[0]))
        if op == "&&":
            return spec.And(self.tb(x) for x in xs)
        if op == "||":
            return spec.Or(self.tb(x) for x in xs)
        if op in ("iff", "xor", "=>"):
            if len(xs) != 2:
                raise SugarSyntaxError("%s arity" % op)
            a, b = self.tb(xs[0]), self.tb(xs[1])
            return a == b if op == "iff" else (z3.Xor(a, b) if op == "xor" else z3.Implies(a, b))
        if op == "alldifferent":
            ts = [self.ti(x) for x in xs]
            return spec.And(ts[i] != ts[j] for i in range(len(ts)) for j in range(i))
        if op == "graph-active-vertices-connected":
            ops = [self._raw(x) for x in xs]
            return spec.native_active_vertices_connected(ops, lambda x: x if z3.is_expr(x) else z3.BoolVal(x))
        if op == "graph-division":
            ops = [self._raw(x) for x in xs]
            return spec.native_graph_division(
                ops, lambda x: x if z3.is_expr(x) else z3.IntVal(x), lambda x: x if z3.is_expr(x) else z3.BoolVal(x))
        raise SugarSyntaxError("boolean operator expected: %r" % (op,))

    def _raw(self, sx):
        """operand of a native operator: int literal -> python int, '*' -> None, else typed z3 term"""
        if isinstance(sx, str):
            if sx == "*":
                return None
            if _is_int_literal(sx):
                return int(sx)
            if sx == "true":
                return True
            if sx == "false":
                return False
            if sx in self.names:
                return self.names[sx][1]
            raise SugarSyntaxError("unknown atom %r" % sx)
        # compound: try bool then int
        try:
            return self.tb(sx)
        except SugarSyntaxError:
            return self.ti(sx)

    def ti(self, sx):
        if isinstance(sx, str):
            if _is_int_literal(sx):
                return z3.IntVal(int(sx))
            if sx in self.names and self.names[sx][0] == "int":
                return self.names[sx][1]
            raise SugarSyntaxError("integer atom expected: %r" % sx)
        if not sx:
            raise SugarSyntaxError("empty list")
        op, xs = sx[0], sx[1:]
        if op == "+":
            if not xs:
                raise SugarSyntaxError("empty +")
            ts = [self.ti(x) for x in xs]
            r = ts[0]
            for t in ts[1:]:
                r = r + t
            return r
        if op == "-":
            if not xs:
                raise SugarSyntaxError("empty -")
            ts = [self.ti(x) for x in xs]
            if len(ts) == 1:
                return -ts[0]
            r = ts[0]
            for t in ts[1:]:
                r = r - t
            return r
        if op == "if":
            if len(xs) != 3:
                raise SugarSyntaxError("if arity")
            return z3.If(self.tb(xs[0]), self.ti(xs[1]), self.ti(xs[2]))
        raise SugarSyntaxError("integer operator expected: %r" % (op,))

    # formula -------------------------------------------------------------------------
    def domain(self):
        return spec.And(z3.And(self.names[n][1] >= lo, self.names[n][1] <= hi)
                        for (n, k, lo, hi) in self.decls if k == "int")

    def formula(self):
        return z3.And(self.domain(), spec.And(self.constraints))


def _fmt(kind, val):
    if kind == "bool":
        return "true" if z3.is_true(val) else "false"
    return str(val.as_long())


def answer(text, chooser=None):
    """A correct external solver behind the protocol.  Plain mode: 's SATISFIABLE' + 'a name\\tvalue'
    lines + 'a' / 's UNSATISFIABLE'.  Deduction mode (text has a '#' line): 'sat' + 'name value' for
    the keys whose value is the same in every solution / 'unsat'."""
    p = Program(text)
    s = z3.Solver()
    s.add(p.formula())
    r = s.check()
    if p.keys is None:
        if r != z3.sat:
            return "s UNSATISFIABLE\n"
        m = s.model()
        out = ["s SATISFIABLE"]
        for want in ("int", "bool"):      # the Java wrapper prints ints first, then bools
            for (n, k, lo, hi) in p.decls:
                if k == want:
                    out.append("a %s\t%s" % (n, _fmt(k, m.eval(p.names[n][1], model_completion=True))))
        out.append("a")
        return "\n".join(out) + "\n"
    if r != z3.sat:
        return "unsat\n"
    m = s.model()
    out = ["sat"]
    keyset = set(p.keys)
    ordered = [n for (n, k, lo, hi) in p.decls if k == "int" and n in keyset] + \
              [n for (n, k, lo, hi) in p.decls if k == "bool" and n in keyset]
    for n in ordered:
        k, zv = p.names[n]
        v = m.eval(zv, model_completion=True)
        s.push()
        s.add(zv != v)
        forced = s.check() == z3.unsat
        s.pop()
        if forced:
            out.append("%s %s" % (n, _fmt(k, v)))
    return "\n".join(out) + "\n"


def fake_backend(base_name="CSugarBackend"):
    """The real cspuz text back end (emission + reply parsing) with the external solver replaced by
    answer() above: what a user with a correct external solver observes."""
    import cspuz.backend.sugar_like as sl
    base = getattr(sl, base_name)

    class Fake(base):
        def _call_solver(self, csp_description):
            return answer(csp_description)
    Fake.__name__ = "Fake" + base_name
    return Fake
