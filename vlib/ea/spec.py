"""Auxiliary-free specifications of the graph notions used by the properties.

Every notion exists twice: as a z3 term builder over Boolean/Int terms (used in the solver
queries) and as a plain-Python function over concrete values (used to replay witnesses and to
cross-validate the z3 builders at start-up).  Nothing here looks at cspuz's encodings.
"""
import itertools

import z3

T, F = z3.BoolVal(True), z3.BoolVal(False)


def And(xs):
    xs = list(xs)
    return z3.And(xs) if xs else T


def Or(xs):
    xs = list(xs)
    return z3.Or(xs) if xs else F


def count(xs):
    xs = list(xs)
    return z3.Sum([z3.If(x, 1, 0) for x in xs]) if xs else z3.IntVal(0)


# ---------------------------------------------------------------------------------------
# closure matrix (Floyd-Warshall over Boolean terms): C[u][v] <=> u,v joined by allowed edges
# between allowed vertices; C[u][u] <=> allowed(u)
# ---------------------------------------------------------------------------------------
def closure(n, edges, vertex_ok, edge_ok):
    """vertex_ok: list of n Bool terms; edge_ok: list of len(edges) Bool terms."""
    C = [[F for _ in range(n)] for _ in range(n)]
    for u in range(n):
        C[u][u] = vertex_ok[u]
    for k, (u, v) in enumerate(edges):
        if u == v:
            continue
        t = z3.And(vertex_ok[u], vertex_ok[v], edge_ok[k])
        C[u][v] = z3.Or(C[u][v], t)
        C[v][u] = z3.Or(C[v][u], t)
    # name intermediate terms to keep DAG sharing explicit (z3 hash-conses anyway)
    for k in range(n):
        N = [[None] * n for _ in range(n)]
        for u in range(n):
            for v in range(u, n):
                if u == k or v == k:
                    N[u][v] = C[u][v]
                else:
                    N[u][v] = z3.Or(C[u][v], z3.And(C[u][k], C[k][v]))
                N[v][u] = N[u][v]
        C = N
    return C


def closure_py(n, edges, vertex_ok, edge_ok):
    parent = list(range(n))

    def find(a):
        while parent[a] != a:
            parent[a] = parent[parent[a]]
            a = parent[a]
        return a
    for k, (u, v) in enumerate(edges):
        if vertex_ok[u] and vertex_ok[v] and edge_ok[k]:
            parent[find(u)] = find(v)
    return [[bool(vertex_ok[u] and vertex_ok[v] and find(u) == find(v)) for v in range(n)] for u in range(n)]


# ---------------------------------------------------------------------------------------
# vertex-set notions
# ---------------------------------------------------------------------------------------
def connected(n, edges, act):
    C = closure(n, edges, act, [T] * len(edges))
    return And(z3.Implies(z3.And(act[u], act[v]), C[u][v]) for u in range(n) for v in range(u + 1, n))


def connected_py(n, edges, act):
    C = closure_py(n, edges, act, [True] * len(edges))
    return all(C[u][v] for u in range(n) for v in range(u + 1, n) if act[u] and act[v])


def tree_or_empty(n, edges, act):
    inside = count(z3.And(act[u], act[v]) for (u, v) in edges)
    size = count(act)
    return z3.And(connected(n, edges, act), z3.Or(size == 0, inside == size - 1))


def tree_or_empty_py(n, edges, act):
    size = sum(1 for a in act if a)
    inside = sum(1 for (u, v) in edges if act[u] and act[v])
    return connected_py(n, edges, act) and (size == 0 or inside == size - 1)


def not_adjacent(n, edges, act):
    return And(z3.Not(z3.And(act[u], act[v])) for (u, v) in edges)


def not_adjacent_py(n, edges, act):
    return all(not (act[u] and act[v]) for (u, v) in edges)


# ---------------------------------------------------------------------------------------
# edge-set notions (multigraphs allowed)
# ---------------------------------------------------------------------------------------
def degrees(n, edges, on):
    inc = [[] for _ in range(n)]
    for k, (u, v) in enumerate(edges):
        inc[u].append(on[k])
        inc[v].append(on[k])      # a self-loop would count twice; not used (loop-free graphs)
    return [count(l) for l in inc]


def degrees_py(n, edges, on):
    d = [0] * n
    for k, (u, v) in enumerate(edges):
        if on[k]:
            d[u] += 1
            d[v] += 1
    return d


def edges_connected(n, edges, on):
    """all active edges lie in one component of the subgraph of active edges"""
    C = closure(n, edges, [T] * n, on)
    deg = degrees(n, edges, on)
    touched = [d > 0 for d in deg]
    return And(z3.Implies(z3.And(touched[u], touched[v]), C[u][v]) for u in range(n) for v in range(u + 1, n))


def edges_connected_py(n, edges, on):
    C = closure_py(n, edges, [True] * n, on)
    d = degrees_py(n, edges, on)
    return all(C[u][v] for u in range(n) for v in range(u + 1, n) if d[u] > 0 and d[v] > 0)


def single_cycle_or_empty(n, edges, on):
    deg = degrees(n, edges, on)
    return z3.And(And(z3.Or(d == 0, d == 2) for d in deg), edges_connected(n, edges, on))


def single_cycle_or_empty_py(n, edges, on):
    d = degrees_py(n, edges, on)
    return all(x in (0, 2) for x in d) and edges_connected_py(n, edges, on)


def single_path_or_empty(n, edges, on):
    deg = degrees(n, edges, on)
    nonempty = Or(on)
    return z3.Or(z3.Not(nonempty),
                 z3.And(And(z3.And(d >= 0, d <= 2) for d in deg), count(d == 1 for d in deg) == 2,
                        edges_connected(n, edges, on)))


def single_path_or_empty_py(n, edges, on):
    if not any(on):
        return True
    d = degrees_py(n, edges, on)
    return all(x <= 2 for x in d) and sum(1 for x in d if x == 1) == 2 and edges_connected_py(n, edges, on)


def forest(n, edges, on):
    """no cycle among active edges: |E| = n - #components"""
    C = closure(n, edges, [T] * n, on)
    ncomp = count(And(z3.Not(C[u][v]) for u in range(v)) for v in range(n))
    return count(on) == n - ncomp


def forest_py(n, edges, on):
    parent = list(range(n))

    def find(a):
        while parent[a] != a:
            a = parent[a]
        return a
    for k, (u, v) in enumerate(edges):
        if on[k]:
            a, b = find(u), find(v)
            if a == b:
                return False
            parent[a] = b
    return True


# ---------------------------------------------------------------------------------------
# labelings / partitions
# ---------------------------------------------------------------------------------------
def same_block_closure(n, edges, same_edge):
    """closure of the relation 'edge k present' (same_edge[k])"""
    return closure(n, edges, [T] * n, same_edge)


def label_classes_connected(n, edges, label, num_regions):
    """every label class induces a connected subgraph: u,v with equal labels must be joined by a
    path of equal-label edges"""
    C = closure(n, edges, [T] * n, [label[u] == label[v] for (u, v) in edges])
    return And(z3.Implies(label[u] == label[v], C[u][v]) for u in range(n) for v in range(u + 1, n))


def label_classes_connected_py(n, edges, label):
    C = closure_py(n, edges, [True] * n, [label[u] == label[v] for (u, v) in edges])
    return all(C[u][v] for u in range(n) for v in range(u + 1, n) if label[u] == label[v])


def division_connected_spec(n, edges, label, num_regions, roots, allow_empty):
    cs = [label_classes_connected(n, edges, label, num_regions)]
    if not allow_empty:
        for i in range(num_regions):
            cs.append(Or(l == i for l in label))
    if roots is not None:
        for i, r in enumerate(roots):
            if r is not None:
                cs.append(label[r] == i)
    return And(cs)


def division_connected_spec_py(n, edges, label, num_regions, roots, allow_empty):
    if not label_classes_connected_py(n, edges, label):
        return False
    if not allow_empty and any(i not in label for i in range(num_regions)):
        return False
    if roots is not None:
        for i, r in enumerate(roots):
            if r is not None and label[r] != i:
                return False
    return True


def borders_spec(n, edges, border, sizes):
    """blocks := components after cutting border edges; every border edge joins different blocks;
    every specified size equals the size of the vertex's block.  sizes: list of Int terms / None."""
    C = closure(n, edges, [T] * n, [z3.Not(b) for b in border])
    cs = [z3.Implies(border[k], z3.Not(C[u][v])) for k, (u, v) in enumerate(edges)]
    for u in range(n):
        if sizes[u] is not None:
            cs.append(count(C[u][v] for v in range(n)) == sizes[u])
    return And(cs)


def borders_spec_py(n, edges, border, sizes):
    C = closure_py(n, edges, [True] * n, [not b for b in border])
    for k, (u, v) in enumerate(edges):
        if border[k] and C[u][v]:
            return False
    for u in range(n):
        if sizes[u] is not None and sum(1 for v in range(n) if C[u][v]) != sizes[u]:
            return False
    return True


def partition_spec(n, edges, same, sizes):
    """same[u][v] (u<v) Bool terms: 'u and v in the same block'.  Valid iff it is an equivalence
    whose classes are connected, with the size condition."""
    def S(u, v):
        if u == v:
            return T
        return same[min(u, v)][max(u, v)]
    cs = []
    for u, v, w in itertools.permutations(range(n), 3):
        if u < w:
            cs.append(z3.Implies(z3.And(S(u, v), S(v, w)), S(u, w)))
    C = closure(n, edges, [T] * n, [S(u, v) for (u, v) in edges])
    for u in range(n):
        for v in range(u + 1, n):
            cs.append(z3.Implies(S(u, v), C[u][v]))
        if sizes[u] is not None:
            cs.append(count(S(u, v) for v in range(n)) == sizes[u])
    return And(cs)


def partition_spec_py(n, edges, same, sizes):
    def S(u, v):
        return True if u == v else same[min(u, v)][max(u, v)]
    for u, v, w in itertools.permutations(range(n), 3):
        if S(u, v) and S(v, w) and not S(u, w):
            return False
    C = closure_py(n, edges, [True] * n, [S(u, v) for (u, v) in edges])
    for u in range(n):
        for v in range(u + 1, n):
            if S(u, v) and not C[u][v]:
                return False
        if sizes[u] is not None and sum(1 for v in range(n) if S(u, v)) != sizes[u]:
            return False
    return True


# ---------------------------------------------------------------------------------------
# native operators (operand layouts as documented in cspuz/graph.py)
# ---------------------------------------------------------------------------------------
class NativeLayoutError(Exception):
    pass


def native_active_vertices_connected(ops, rb):
    if len(ops) < 2 or not all(isinstance(x, int) and not isinstance(x, bool) for x in ops[:2]):
        raise NativeLayoutError("n, m must be ints")
    n, m = ops[0], ops[1]
    if len(ops) != 2 + n + 2 * m:
        raise NativeLayoutError("operand count %d != 2+n+2m (n=%d m=%d)" % (len(ops), n, m))
    act = [rb(x) for x in ops[2:2 + n]]
    ends = ops[2 + n:]
    edges = []
    for k in range(m):
        u, v = ends[2 * k], ends[2 * k + 1]
        if not (isinstance(u, int) and isinstance(v, int) and 0 <= u < n and 0 <= v < n):
            raise NativeLayoutError("bad endpoint")
        edges.append((u, v))
    return connected(n, edges, act)


def native_graph_division(ops, ri, rb):
    n, m = ops[0], ops[1]
    if len(ops) != 2 + n + 3 * m:
        raise NativeLayoutError("operand count %d != 2+n+3m" % len(ops))
    sizes = [None if x is None else ri(x) for x in ops[2:2 + n]]
    ends = ops[2 + n:2 + n + 2 * m]
    edges = []
    for k in range(m):
        u, v = ends[2 * k], ends[2 * k + 1]
        if not (isinstance(u, int) and isinstance(v, int) and 0 <= u < n and 0 <= v < n):
            raise NativeLayoutError("bad endpoint")
        edges.append((u, v))
    border = [rb(x) for x in ops[2 + n + 2 * m:]]
    return borders_spec(n, edges, border, sizes)


# ---------------------------------------------------------------------------------------
# geometry helpers
# ---------------------------------------------------------------------------------------
def grid_edges(h, w):
    """4-neighbour grid graph on cells, vertex id = y*w+x (written from the documentation)"""
    es = []
    for y in range(h):
        for x in range(w):
            if x + 1 < w:
                es.append((y * w + x, y * w + x + 1))
            if y + 1 < h:
                es.append((y * w + x, (y + 1) * w + x))
    return es


# ---------------------------------------------------------------------------------------
# start-up cross validation of z3 builders against their Python twins
# ---------------------------------------------------------------------------------------
def self_test(rng, rounds=6):
    """Random small graphs/patterns: z3 builder, evaluated on constants, must equal the Python twin."""
    def val(t):
        return z3.is_true(z3.simplify(t))
    n_checked = 0
    for _ in range(rounds):
        n = rng.randint(1, 5)
        m = rng.randint(0, 6)
        edges = []
        for _k in range(m):
            u, v = rng.randrange(n), rng.randrange(n)
            if u != v:
                edges.append((u, v))
        act = [rng.random() < 0.6 for _ in range(n)]
        on = [rng.random() < 0.5 for _ in edges]
        zact = [z3.BoolVal(a) for a in act]
        zon = [z3.BoolVal(a) for a in on]
        pairs = [
            (connected(n, edges, zact), connected_py(n, edges, act), "connected"),
            (tree_or_empty(n, edges, zact), tree_or_empty_py(n, edges, act), "tree"),
            (not_adjacent(n, edges, zact), not_adjacent_py(n, edges, act), "not_adjacent"),
            (single_cycle_or_empty(n, edges, zon), single_cycle_or_empty_py(n, edges, on), "cycle"),
            (single_path_or_empty(n, edges, zon), single_path_or_empty_py(n, edges, on), "path"),
            (forest(n, edges, zon), forest_py(n, edges, on), "forest"),
        ]
        k = rng.randint(1, 3)
        lab = [rng.randrange(k) for _ in range(n)]
        roots = [rng.choice([None, rng.randrange(n)]) for _ in range(k)]
        ae = rng.random() < 0.5
        pairs.append((division_connected_spec(n, edges, [z3.IntVal(x) for x in lab], k, roots, ae),
                      division_connected_spec_py(n, edges, lab, k, roots, ae), "division"))
        sizes = [rng.choice([None, rng.randint(1, n)]) for _ in range(n)]
        pairs.append((borders_spec(n, edges, zon, [None if s is None else z3.IntVal(s) for s in sizes]),
                      borders_spec_py(n, edges, on, sizes), "borders"))
        same = [[rng.random() < 0.5 for _ in range(n)] for _ in range(n)]
        pairs.append((partition_spec(n, edges, [[z3.BoolVal(b) for b in row] for row in same],
                                     [None if s is None else z3.IntVal(s) for s in sizes]),
                      partition_spec_py(n, edges, same, sizes), "partition"))
        for zt, pv, name in pairs:
            n_checked += 1
            if val(zt) != pv:
                raise AssertionError("spec self-test mismatch in %s: n=%d edges=%r act=%r on=%r" % (name, n, edges, act, on))
    return n_checked
