"""Engine C: a small AST -> z3 translator for straight-line integer Python (regenerated from inspect.getsource
on every run).  Supported: assignments to names and self attributes, + - * // % ^ & | << >>, comparisons, and/or/not,
if/elif/else, raise, return, `while True:` (unrolled k times, with an explicit 'unwind' outcome), calls listed in
`calls` (each call yields a fresh symbolic value).  Anything else raises Unsupported (the check exits 3, never passes).

Two integer modes:
  'int'  - Python ints as z3 Ints.  // and % are translated to z3 div/mod, which agree with Python's floor semantics
           only for a positive divisor: every such use adds the side obligation  divisor > 0.
  'bv64' - values as 64-bit vectors (for masked bit-twiddling).  << adds the side obligation that no set bit is shifted
           out (so the vector result equals Python's unbounded result); + - * are not allowed in this mode.
"""
import ast
import inspect
import textwrap

import z3


class Unsupported(Exception):
    pass


class Path:
    def __init__(self, cond, kind, value, state, obligations):
        self.cond = cond              # z3 Bool: path condition
        self.kind = kind              # 'return' | 'raise:<Name>' | 'fallthrough' | 'unwind'
        self.value = value            # z3 term or None
        self.state = state            # dict name -> term (locals and 'self.<attr>')
        self.obligations = obligations  # list of (description, z3 Bool that must hold on this path)


class Translator:
    def __init__(self, func, mode, env, calls=None, unroll=2, consts=None):
        self.mode = mode
        self.env0 = dict(env)
        self.calls = calls or {}
        self.unroll = unroll
        self.consts = consts or {}
        src = textwrap.dedent(inspect.getsource(func))
        self.source = src
        tree = ast.parse(src)
        self.fn = tree.body[0]
        if not isinstance(self.fn, ast.FunctionDef):
            raise Unsupported("not a function")
        self.paths = []
        self.fresh = 0

    # ---- values ---------------------------------------------------------------------------------------
    def const(self, v):
        if isinstance(v, bool):
            return z3.BoolVal(v)
        if isinstance(v, int):
            return z3.BitVecVal(v, 64) if self.mode == "bv64" else z3.IntVal(v)
        raise Unsupported("constant %r" % (v,))

    def expr(self, e, st, obl, cond):
        if isinstance(e, ast.Constant):
            return self.const(e.value)
        if isinstance(e, ast.Name):
            if e.id in st:
                return st[e.id]
            if e.id in self.consts:
                return self.const(self.consts[e.id])
            raise Unsupported("unknown name %s" % e.id)
        if isinstance(e, ast.Attribute) and isinstance(e.value, ast.Name) and e.value.id == "self":
            k = "self." + e.attr
            if k in st:
                return st[k]
            raise Unsupported("unknown attribute %s" % k)
        if isinstance(e, ast.BinOp):
            a = self.expr(e.left, st, obl, cond)
            b = self.expr(e.right, st, obl, cond)
            op = e.op
            if self.mode == "bv64":
                if isinstance(op, ast.BitXor):
                    return a ^ b
                if isinstance(op, ast.BitAnd):
                    return a & b
                if isinstance(op, ast.BitOr):
                    return a | b
                if isinstance(op, ast.RShift):
                    obl.append(("shift amount of >> in range", z3.ULT(b, 64)))
                    return z3.LShR(a, b)
                if isinstance(op, ast.LShift):
                    obl.append(("no bit shifted out by << (vector result = Python's unbounded result)", z3.LShR(a << b, b) == a))
                    obl.append(("shift amount of << in range", z3.ULT(b, 64)))
                    return a << b
                raise Unsupported("operator %s in bv64 mode" % type(op).__name__)
            if isinstance(op, ast.Add):
                return a + b
            if isinstance(op, ast.Sub):
                return a - b
            if isinstance(op, ast.Mult):
                return a * b
            if isinstance(op, ast.FloorDiv):
                obl.append(("divisor of // positive (z3 div = Python floor division)", b > 0))
                return a / b
            if isinstance(op, ast.Mod):
                obl.append(("divisor of % positive (z3 mod = Python modulo)", b > 0))
                return a % b
            raise Unsupported("operator %s in int mode" % type(op).__name__)
        if isinstance(e, ast.UnaryOp):
            v = self.expr(e.operand, st, obl, cond)
            if isinstance(e.op, ast.Not):
                return z3.Not(v)
            if isinstance(e.op, ast.USub) and self.mode == "int":
                return -v
            raise Unsupported("unary %s" % type(e.op).__name__)
        if isinstance(e, ast.Compare):
            if len(e.ops) != 1:
                raise Unsupported("chained comparison")
            a = self.expr(e.left, st, obl, cond)
            b = self.expr(e.comparators[0], st, obl, cond)
            op = e.ops[0]
            if self.mode == "bv64":
                tbl = {ast.Lt: z3.ULT, ast.LtE: z3.ULE, ast.Gt: z3.UGT, ast.GtE: z3.UGE,
                       ast.Eq: lambda x, y: x == y, ast.NotEq: lambda x, y: x != y}
            else:
                tbl = {ast.Lt: lambda x, y: x < y, ast.LtE: lambda x, y: x <= y, ast.Gt: lambda x, y: x > y,
                       ast.GtE: lambda x, y: x >= y, ast.Eq: lambda x, y: x == y, ast.NotEq: lambda x, y: x != y}
            if type(op) not in tbl:
                raise Unsupported("comparison %s" % type(op).__name__)
            return tbl[type(op)](a, b)
        if isinstance(e, ast.BoolOp):
            vs = [self.expr(v, st, obl, cond) for v in e.values]
            return z3.And(vs) if isinstance(e.op, ast.And) else z3.Or(vs)
        if isinstance(e, ast.Call):
            name = ast.unparse(e.func)
            if name in self.calls and not e.args and not e.keywords:
                self.fresh += 1
                return self.calls[name](self.fresh)
            raise Unsupported("call %s" % name)
        raise Unsupported("expression %s" % type(e).__name__)

    # ---- statements -----------------------------------------------------------------------------------
    def run(self):
        self.block(self.fn.body, dict(self.env0), z3.BoolVal(True), [], loops=[])
        return self.paths

    def emit(self, cond, kind, value, st, obl):
        self.paths.append(Path(cond, kind, value, dict(st), list(obl)))

    def block(self, stmts, st, cond, obl, loops, cont=None):
        """executes stmts; `cont` = continuation (list of (stmts, loop marker)) to run after the block falls through"""
        for i, s in enumerate(stmts):
            rest = stmts[i + 1:]
            if isinstance(s, ast.Expr) and isinstance(s.value, ast.Constant):
                continue            # docstring
            if isinstance(s, (ast.Global, ast.Pass)):
                continue
            if isinstance(s, ast.Assign):
                if len(s.targets) != 1:
                    raise Unsupported("multiple assignment targets")
                v = self.expr(s.value, st, obl, cond)
                t = s.targets[0]
                if isinstance(t, ast.Name):
                    st[t.id] = v
                elif isinstance(t, ast.Attribute) and isinstance(t.value, ast.Name) and t.value.id == "self":
                    st["self." + t.attr] = v
                else:
                    raise Unsupported("assignment target %s" % ast.unparse(t))
                continue
            if isinstance(s, ast.Return):
                v = None if s.value is None else self.expr(s.value, st, obl, cond)
                self.emit(cond, "return", v, st, obl)
                return
            if isinstance(s, ast.Raise):
                exc = s.exc
                name = exc.func.id if isinstance(exc, ast.Call) and isinstance(exc.func, ast.Name) else (
                    exc.id if isinstance(exc, ast.Name) else "?")
                self.emit(cond, "raise:" + name, None, st, obl)
                return
            if isinstance(s, ast.If):
                c = self.expr(s.test, st, obl, cond)
                if not z3.is_bool(c):
                    raise Unsupported("non-boolean condition")
                self.block(s.body + rest, dict(st), z3.And(cond, c), list(obl), loops, cont)
                self.block(s.orelse + rest, dict(st), z3.And(cond, z3.Not(c)), list(obl), loops, cont)
                return
            if isinstance(s, ast.While):
                if not (isinstance(s.test, ast.Constant) and s.test.value is True) or s.orelse:
                    raise Unsupported("only `while True:` loops")
                self.loop(s, rest, st, cond, obl, loops, cont, self.unroll)
                return
            if isinstance(s, ast.Break):
                if not loops:
                    raise Unsupported("break outside loop")
                after, outer_loops, outer_cont = loops[-1]
                self.block(after, st, cond, obl, outer_loops, outer_cont)
                return
            raise Unsupported("statement %s" % type(s).__name__)
        # fell off the end of the block
        if cont is not None:
            cont(st, cond, obl)
        else:
            self.emit(cond, "fallthrough", None, st, obl)

    def loop(self, w, after, st, cond, obl, loops, cont, k):
        if k == 0:
            self.emit(cond, "unwind", None, st, obl)
            return

        def again(st2, cond2, obl2):
            self.loop(w, after, dict(st2), cond2, list(obl2), loops, cont, k - 1)
        self.block(w.body, dict(st), cond, list(obl), loops + [(after, loops, cont)], again)
